//! The auto-trait clause of C03: "safe code can never reach one payload from two threads at once
//! unless the payload type permits sharing, nor move a payload to another thread unless it
//! permits sending". This quantifies over *programs the compiler admits* — rustc's decision, not a
//! schedule — so it is not simulated: the harness generates one small safe program per cell of
//! {pool} × {handle form} × {payload auto traits} × {action}, lets rustc (the workspace's pinned
//! toolchain) type-check it against an `infinity_pool` built from /repo's current tree, and
//! compares the verdict with what the property demands. Programs that must be rejected but are
//! admitted are then *executed* under Miri by `racers.rs` (the data race is the violation).
//!
//! Cost control: all cells are type-checked in one crate (one module per cell, one rustc run per
//! harness process, diagnostics attributed to cells by line); every mismatch and a random sample
//! of the other cells is additionally compiled as its own crate, and the two verdicts must agree.

use std::collections::BTreeMap;
use std::path::{Path, PathBuf};
use std::process::Command;
use std::sync::OnceLock;

use serde::{Deserialize, Serialize};
use serde_json::{Value, json};
use simkit::{Ctx, Rng, Scenario, Violation, check};

use crate::racers;

pub const KNOWN_KEY: &str = "c03-handle-sync-for-all-payloads";

pub fn avoid_known() -> bool {
    crate::AVOID_KNOWN.contains(&KNOWN_KEY)
}

#[derive(Clone, Copy, Debug, PartialEq, Eq, PartialOrd, Ord)]
pub enum PoolK {
    Opaque,
    Pinned,
    Blind,
}

#[derive(Clone, Copy, Debug, PartialEq, Eq, PartialOrd, Ord)]
pub enum FormK {
    UniqTyped,
    SharedTyped,
    UniqErased,
    SharedErased,
    UniqDyn,
    SharedDyn,
}

impl FormK {
    fn shared(self) -> bool {
        matches!(self, FormK::SharedTyped | FormK::SharedErased | FormK::SharedDyn)
    }
    fn erased(self) -> bool {
        matches!(self, FormK::UniqErased | FormK::SharedErased)
    }
    fn is_dyn(self) -> bool {
        matches!(self, FormK::UniqDyn | FormK::SharedDyn)
    }
}

/// Auto traits of the payload type as the handle's type parameter states them (for `dyn` forms:
/// of the trait object type; for erased forms: of the concrete payload behind `()`).
#[derive(Clone, Copy, Debug, PartialEq, Eq, PartialOrd, Ord)]
pub enum Pay {
    SS,
    SN,
    NS,
    NN,
}

impl Pay {
    fn send(self) -> bool {
        matches!(self, Pay::SS | Pay::SN)
    }
    fn sync(self) -> bool {
        matches!(self, Pay::SS | Pay::NS)
    }
    fn label(self) -> &'static str {
        match self {
            Pay::SS => "Send+Sync",
            Pay::SN => "Send+!Sync",
            Pay::NS => "!Send+Sync",
            Pay::NN => "!Send+!Sync",
        }
    }
}

#[derive(Clone, Copy, Debug, PartialEq, Eq, PartialOrd, Ord)]
pub enum Act {
    /// `&handle` captured by a scoped thread while the spawning thread keeps using it.
    Share,
    /// The only handle is moved into a spawned thread.
    Move,
    /// A clone is moved into a spawned thread, the original stays (shared forms).
    MoveClone,
    /// Type-level: `HandleType: Send`, no value involved.
    TySend,
    /// Type-level: `HandleType: Sync`.
    TySync,
}

#[derive(Clone, Copy, Debug, PartialEq, Eq, PartialOrd, Ord)]
pub struct CellDef {
    pub pool: PoolK,
    pub form: FormK,
    pub pay: Pay,
    pub act: Act,
}

#[derive(Clone, Copy, Debug, PartialEq, Eq, Serialize, Deserialize)]
pub enum Expect {
    /// The property demands rejection.
    MustReject,
    /// Control: everything about the payload permits it; a rejection means the probe (or the
    /// library's API) changed and the matrix would be meaningless.
    MustAdmit,
    /// The property does not constrain this cell; the verdict is only recorded.
    Either,
}

impl CellDef {
    pub fn handle_type(&self) -> String {
        let base = match (self.pool, self.form.shared()) {
            (PoolK::Blind, false) => "BlindPooledMut",
            (PoolK::Blind, true) => "BlindPooled",
            (_, false) => "PooledMut",
            (_, true) => "Pooled",
        };
        let arg = if self.form.erased() {
            "()"
        } else if self.form.is_dyn() {
            "dyn Tr"
        } else {
            "T"
        };
        format!("{base}<{arg}>")
    }

    pub fn name(&self) -> String {
        let pool = match self.pool {
            PoolK::Opaque => "opaque",
            PoolK::Pinned => "pinned",
            PoolK::Blind => "blind",
        };
        let act = match self.act {
            Act::Share => "share",
            Act::Move => "move",
            Act::MoveClone => "move_clone",
            Act::TySend => "type:Send",
            Act::TySync => "type:Sync",
        };
        format!("{pool}/{}/{}/{act}", self.handle_type(), self.pay.label())
    }

    /// What the property says about this program (Arc/Box discipline: a unique handle is a
    /// `Box<T>`, a shared handle an `Arc<T>`; an erased handle still destroys the payload where
    /// its last clone is dropped).
    pub fn expect(&self) -> Expect {
        let (send, sync) = (self.pay.send(), self.pay.sync());
        let must_reject = match (self.act, self.form) {
            (Act::Share | Act::TySync, FormK::UniqTyped | FormK::UniqDyn) => !sync,
            (Act::Share | Act::TySync, FormK::SharedTyped | FormK::SharedDyn) => !sync || !send,
            (Act::Share | Act::TySync, FormK::UniqErased) => false,
            (Act::Share | Act::TySync, FormK::SharedErased) => !send,
            (Act::Move, _) => !send,
            (Act::MoveClone | Act::TySend, FormK::SharedTyped | FormK::SharedDyn) => !send || !sync,
            (Act::MoveClone | Act::TySend, _) => !send,
        };
        if must_reject {
            Expect::MustReject
        } else if send && sync {
            Expect::MustAdmit
        } else {
            Expect::Either
        }
    }

    /// Whether the concrete payload can be inserted at all (`insert` requires `Send`).
    fn insertable(&self) -> bool {
        self.form.is_dyn() || self.pay.send()
    }

    /// Footprint of known finding 4: handles are `Sync` for every payload, and shared handles are
    /// `Send` as soon as the payload is `Send` (without `Sync`).
    pub fn in_known_footprint(&self) -> bool {
        if self.expect() != Expect::MustReject {
            return false;
        }
        let type_level = matches!(self.act, Act::TySend | Act::TySync);
        if !type_level && !self.insertable() {
            return false;
        }
        match self.act {
            Act::Share | Act::TySync => true,
            Act::MoveClone | Act::TySend => self.form.shared() && self.pay.send() && !self.pay.sync(),
            Act::Move => false,
        }
    }
}

pub fn all_cells() -> Vec<CellDef> {
    let mut out = Vec::new();
    for pool in [PoolK::Opaque, PoolK::Pinned, PoolK::Blind] {
        for form in [
            FormK::UniqTyped,
            FormK::SharedTyped,
            FormK::UniqErased,
            FormK::SharedErased,
            FormK::UniqDyn,
            FormK::SharedDyn,
        ] {
            for pay in [Pay::SS, Pay::SN, Pay::NS, Pay::NN] {
                let mut acts = vec![Act::Share, Act::Move];
                if form.shared() {
                    acts.push(Act::MoveClone);
                }
                // Pinned and opaque pools hand out the same handle types; erased handles have no
                // payload type parameter.
                if !form.erased() && pool != PoolK::Pinned {
                    acts.push(Act::TySend);
                    acts.push(Act::TySync);
                }
                for act in acts {
                    out.push(CellDef { pool, form, pay, act });
                }
            }
        }
    }
    out
}

// ----------------------------------------------------------------------------------------------
// Probe program text
// ----------------------------------------------------------------------------------------------

/// Body of the module of one probe (also used as a whole crate for separate compilation).
pub fn probe_module_body(c: &CellDef) -> String {
    // Concrete payload: for dyn forms the *trait object type* carries the auto traits of the
    // cell, the value behind it must be insertable (Send) and satisfy the trait's supertraits.
    let concrete = if c.form.is_dyn() {
        if c.pay.sync() { Pay::SS } else { Pay::SN }
    } else {
        c.pay
    };
    let mut s = String::new();
    let (field, new_v, bump) = if concrete.sync() {
        (
            "std::sync::atomic::AtomicU32",
            "std::sync::atomic::AtomicU32::new(0)",
            "self.v.fetch_add(1, std::sync::atomic::Ordering::Relaxed);",
        )
    } else {
        ("std::cell::Cell<u32>", "std::cell::Cell::new(0)", "self.v.set(self.v.get() + 1);")
    };
    // A `!Send` marker that leaves `Sync` alone: MutexGuard<'static, ()> is Sync but not Send;
    // Rc<()> is neither.
    let marker = match (concrete.send(), concrete.sync()) {
        (true, _) => "()",
        (false, true) => "std::sync::MutexGuard<'static, ()>",
        (false, false) => "std::rc::Rc<()>",
    };
    s.push_str(&format!(
        "pub struct Pay {{ v: {field}, m: std::marker::PhantomData<{marker}> }}\n\
         impl Pay {{\n    pub fn new() -> Self {{ Self {{ v: {new_v}, m: std::marker::PhantomData }} }}\n    \
         pub fn bump(&self) {{ {bump} }}\n}}\n"
    ));
    if c.form.is_dyn() {
        let sup = match c.pay {
            Pay::SS => ": Send + Sync",
            Pay::SN => ": Send",
            Pay::NS => ": Sync",
            Pay::NN => "",
        };
        s.push_str(&format!(
            "pub trait Tr{sup} {{ fn bump_dyn(&self); }}\n\
             impl Tr for Pay {{ fn bump_dyn(&self) {{ self.bump(); }} }}\n\
             infinity_pool::define_pooled_dyn_cast!(Tr);\n"
        ));
    }
    s.push_str("pub fn probe() {\n");
    if matches!(c.act, Act::TySend | Act::TySync) {
        let bound = if c.act == Act::TySend { "Send" } else { "Sync" };
        let ty = c.handle_type().replace("<T>", "<Pay>");
        s.push_str(&format!(
            "    fn need<X: {bound} + ?Sized>() {{}}\n    need::<infinity_pool::{ty}>();\n}}\n"
        ));
        return s;
    }
    s.push_str(match c.pool {
        PoolK::Opaque => "    let pool = infinity_pool::OpaquePool::with_layout_of::<Pay>();\n",
        PoolK::Pinned => "    let pool = infinity_pool::PinnedPool::<Pay>::new();\n",
        PoolK::Blind => "    let pool = infinity_pool::BlindPool::new();\n",
    });
    s.push_str("    let h = pool.insert(Pay::new());\n");
    s.push_str(match c.form {
        FormK::UniqTyped => "",
        FormK::SharedTyped => "    let h = h.into_shared();\n",
        FormK::UniqErased => "    let h = h.erase();\n",
        FormK::SharedErased => "    let h = h.into_shared().erase();\n",
        FormK::UniqDyn => "    let h = h.cast_tr();\n",
        FormK::SharedDyn => "    let h = h.into_shared().cast_tr();\n",
    });
    let touch = |var: &str| -> String {
        if c.form.erased() {
            if c.form.shared() {
                format!("let c = {var}.clone(); drop(c);")
            } else {
                format!("let _ = {var}.ptr();")
            }
        } else if c.form.is_dyn() {
            format!("{var}.bump_dyn();")
        } else {
            format!("{var}.bump();")
        }
    };
    match c.act {
        Act::Share => s.push_str(&format!(
            "    std::thread::scope(|s| {{\n        s.spawn(|| {{ {} }});\n        {}\n    }});\n",
            touch("h"),
            touch("h")
        )),
        Act::Move => s.push_str(&format!(
            "    std::thread::spawn(move || {{ {} drop(h); }}).join().unwrap();\n",
            touch("h")
        )),
        Act::MoveClone => s.push_str(&format!(
            "    let h2 = h.clone();\n    let j = std::thread::spawn(move || {{ {} drop(h2); }});\n    {}\n    j.join().unwrap();\n",
            touch("h2"),
            touch("h")
        )),
        Act::TySend | Act::TySync => unreachable!(),
    }
    s.push_str("}\n");
    s
}

fn indent(body: &str) -> String {
    body.lines().map(|l| format!("    {l}\n")).collect()
}

struct MatrixSource {
    text: String,
    /// (first line, last line) of each module, 1-based, in `all_cells()` order, then the two
    /// sentinels (must compile, must fail).
    ranges: Vec<(usize, usize)>,
}

fn matrix_source(cells: &[CellDef]) -> MatrixSource {
    let mut text = String::from("#![allow(warnings)]\n");
    let mut ranges = Vec::new();
    let mut line = 2;
    let mut push_mod = |name: String, body: &str, text: &mut String, line: &mut usize| {
        let m = format!("mod {name} {{\n{}}}\n", indent(body));
        let n = m.lines().count();
        ranges.push((*line, *line + n - 1));
        *line += n;
        text.push_str(&m);
    };
    for (i, c) in cells.iter().enumerate() {
        push_mod(format!("p{i:03}"), &probe_module_body(c), &mut text, &mut line);
    }
    push_mod(
        "sentinel_ok".to_owned(),
        "pub fn probe() {\n    fn need<X: Send>() {}\n    need::<u32>();\n}\n",
        &mut text,
        &mut line,
    );
    push_mod(
        "sentinel_bad".to_owned(),
        "pub fn probe() {\n    fn need<X: Send>() {}\n    need::<std::rc::Rc<u8>>();\n}\n",
        &mut text,
        &mut line,
    );
    MatrixSource { text, ranges }
}

fn single_source(c: &CellDef) -> String {
    format!("#![allow(warnings)]\nmod p {{\n{}}}\nfn main() {{ p::probe(); }}\n", indent(&probe_module_body(c)))
}

// ----------------------------------------------------------------------------------------------
// Toolchain: an infinity_pool rlib built from the current tree, and rustc
// ----------------------------------------------------------------------------------------------

#[derive(Clone, Debug, Serialize, Deserialize, PartialEq)]
pub struct Verdict {
    pub admitted: bool,
    /// Error codes rustc gave (empty when admitted).
    pub codes: Vec<String>,
    pub first_error: String,
    /// Rejected for an auto-trait reason (E0277 naming Send / Sync), not for a broken probe.
    pub auto_trait_reason: bool,
}

struct Toolchain {
    pkg_dir: PathBuf,
    work_dir: PathBuf,
    rlib: PathBuf,
    deps_dir: PathBuf,
    matrix_path: PathBuf,
}

/// Path of the `infinity_pool` package this harness was built against (read from this crate's
/// own manifest, so a scratch copy of the harness pointed at a mutated tree probes that tree).
fn infinity_pool_path() -> String {
    let manifest = include_str!("../Cargo.toml");
    for line in manifest.lines() {
        let l = line.trim();
        if l.starts_with("infinity_pool") {
            if let Some(i) = l.find("path") {
                let rest = &l[i..];
                if let Some(a) = rest.find('"') {
                    if let Some(b) = rest[a + 1..].find('"') {
                        return rest[a + 1..a + 1 + b].to_owned();
                    }
                }
            }
        }
    }
    "/repo/packages/infinity_pool".to_owned()
}

fn write_if_changed(path: &Path, content: &str) -> std::io::Result<()> {
    if std::fs::read_to_string(path).is_ok_and(|c| c == content) {
        return Ok(());
    }
    let tmp = path.with_extension(format!("tmp{}", std::process::id()));
    std::fs::write(&tmp, content)?;
    std::fs::rename(&tmp, path)
}

fn tool_command(program: &str, cwd: &Path) -> Command {
    let mut c = Command::new(program);
    c.current_dir(cwd)
        .env_remove("RUSTUP_TOOLCHAIN")
        .env_remove("RUSTFLAGS")
        .env_remove("CARGO_ENCODED_RUSTFLAGS")
        .env_remove("CARGO_BUILD_RUSTFLAGS")
        .env_remove("MIRIFLAGS")
        .env("CARGO_NET_OFFLINE", "true");
    c
}

fn prepare_toolchain() -> Result<Toolchain, String> {
    let exe = std::env::current_exe().map_err(|e| format!("current_exe: {e}"))?;
    let root = exe
        .parent()
        .and_then(Path::parent)
        .map_or_else(std::env::temp_dir, Path::to_path_buf)
        .join("c03_probes");
    let pkg_dir = root.join("pkg");
    let work_dir = root.join("work");
    std::fs::create_dir_all(&pkg_dir).map_err(|e| format!("mkdir {}: {e}", pkg_dir.display()))?;
    std::fs::create_dir_all(&work_dir).map_err(|e| format!("mkdir {}: {e}", work_dir.display()))?;
    let ws = Path::new(env!("CARGO_MANIFEST_DIR")).parent().map(Path::to_path_buf).unwrap_or_default();
    let manifest = format!(
        "[package]\nname = \"c03_probe_dep\"\nversion = \"0.0.0\"\nedition = \"2024\"\npublish = false\n\n\
         [lib]\npath = \"lib.rs\"\n\n[dependencies]\ninfinity_pool = {{ path = \"{}\" }}\n\n[workspace]\n",
        infinity_pool_path()
    );
    let io = |e: std::io::Error| format!("scratch package: {e}");
    write_if_changed(&pkg_dir.join("Cargo.toml"), &manifest).map_err(io)?;
    write_if_changed(&pkg_dir.join("lib.rs"), "pub use infinity_pool as ip;\n").map_err(io)?;
    if let Ok(tc) = std::fs::read_to_string(ws.join("rust-toolchain.toml")) {
        write_if_changed(&pkg_dir.join("rust-toolchain.toml"), &tc).map_err(io)?;
    }
    if !pkg_dir.join("Cargo.lock").exists() {
        if let Ok(lock) = std::fs::read_to_string(ws.join("Cargo.lock")) {
            write_if_changed(&pkg_dir.join("Cargo.lock"), &lock).map_err(io)?;
        }
    }
    // cargo decides whether the rlib is up to date with /repo's current tree and tells us where
    // it is; concurrent harness processes serialise on cargo's own build-directory lock.
    let out = tool_command("cargo", &pkg_dir)
        .args(["build", "--offline", "--message-format=json", "-j", "4"])
        .env("CARGO_TARGET_DIR", root.join("target"))
        .output()
        .map_err(|e| format!("cannot run cargo: {e}"))?;
    if !out.status.success() {
        let err = String::from_utf8_lossy(&out.stderr);
        return Err(format!("cargo build of the probe dependency failed: {}", err.chars().take(1500).collect::<String>()));
    }
    let mut rlib = None;
    for line in String::from_utf8_lossy(&out.stdout).lines() {
        let Ok(v) = serde_json::from_str::<Value>(line) else { continue };
        if v["reason"] == "compiler-artifact" && v["target"]["name"] == "infinity_pool" {
            for f in v["filenames"].as_array().into_iter().flatten() {
                if let Some(f) = f.as_str() {
                    if f.ends_with(".rlib") {
                        rlib = Some(PathBuf::from(f));
                    }
                }
            }
        }
    }
    let rlib = rlib.ok_or("cargo did not report an infinity_pool rlib")?;
    let deps_dir = rlib.parent().map(Path::to_path_buf).ok_or("rlib has no parent")?;
    Ok(Toolchain { pkg_dir, work_dir, rlib, deps_dir, matrix_path: root.join("admission_matrix.json") })
}

/// Runs rustc on one source file; returns the error diagnostics as (line, code, message).
fn rustc_check(tc: &Toolchain, src: &Path, crate_type: &str) -> Result<Vec<(usize, String, String)>, String> {
    let out_file = src.with_extension("rmeta");
    let out = tool_command("rustc", &tc.pkg_dir)
        .args(["--edition", "2024", "--crate-type", crate_type, "--emit=metadata", "--error-format=json"])
        .args(["--cap-lints", "allow", "-o"])
        .arg(&out_file)
        .arg(src)
        .arg("--extern")
        .arg(format!("infinity_pool={}", tc.rlib.display()))
        .arg("-L")
        .arg(format!("dependency={}", tc.deps_dir.display()))
        .output()
        .map_err(|e| format!("cannot run rustc: {e}"))?;
    let _ = std::fs::remove_file(&out_file);
    let mut errors = Vec::new();
    for line in String::from_utf8_lossy(&out.stderr).lines() {
        let Ok(v) = serde_json::from_str::<Value>(line) else { continue };
        if v["level"] != "error" {
            continue;
        }
        let msg = v["message"].as_str().unwrap_or("").to_owned();
        if msg.starts_with("aborting due to") {
            continue;
        }
        let code = v["code"]["code"].as_str().unwrap_or("").to_owned();
        let spans = v["spans"].as_array().cloned().unwrap_or_default();
        let line_no = spans
            .iter()
            .find(|s| s["is_primary"] == true)
            .or(spans.first())
            .and_then(|s| s["line_start"].as_u64())
            .unwrap_or(0) as usize;
        errors.push((line_no, code, msg));
    }
    if !out.status.success() && errors.is_empty() {
        return Err(format!(
            "rustc failed without a diagnostic: {}",
            String::from_utf8_lossy(&out.stderr).chars().take(800).collect::<String>()
        ));
    }
    if out.status.success() && !errors.is_empty() {
        return Err("rustc succeeded but reported errors".to_owned());
    }
    Ok(errors)
}

fn verdict_of(errors: &[(usize, String, String)]) -> Verdict {
    let auto = errors.iter().any(|(_, code, msg)| {
        code == "E0277"
            && (msg.contains("cannot be sent between threads safely")
                || msg.contains("cannot be shared between threads safely"))
    });
    let mut codes: Vec<String> = errors.iter().map(|e| e.1.clone()).collect();
    codes.sort();
    codes.dedup();
    Verdict {
        admitted: errors.is_empty(),
        codes,
        first_error: errors.first().map(|e| e.2.chars().take(160).collect()).unwrap_or_default(),
        auto_trait_reason: auto,
    }
}

pub struct Matrix {
    tc: Toolchain,
    pub cells: Vec<CellDef>,
    pub verdicts: Vec<Verdict>,
    singles: std::sync::Mutex<BTreeMap<usize, Verdict>>,
}

fn build_matrix() -> Result<Matrix, String> {
    let tc = prepare_toolchain()?;
    let cells = all_cells();
    let src = matrix_source(&cells);
    let path = tc.work_dir.join(format!("matrix_{}.rs", std::process::id()));
    std::fs::write(&path, &src.text).map_err(|e| format!("write {}: {e}", path.display()))?;
    let errors = rustc_check(&tc, &path, "lib")?;
    let _ = std::fs::remove_file(&path);
    let mut per: Vec<Vec<(usize, String, String)>> = vec![Vec::new(); src.ranges.len()];
    for e in errors {
        match src.ranges.iter().position(|(a, b)| e.0 >= *a && e.0 <= *b) {
            Some(i) => per[i].push(e),
            None => return Err(format!("rustc error outside every probe module (line {}): {} {}", e.0, e.1, e.2)),
        }
    }
    let n = cells.len();
    if !per[n].is_empty() {
        return Err(format!("sentinel that must compile was rejected: {:?}", per[n]));
    }
    if !verdict_of(&per[n + 1]).auto_trait_reason {
        return Err("sentinel that must be rejected was not: type checking did not reach the probe bodies".to_owned());
    }
    let verdicts: Vec<Verdict> = per[..n].iter().map(|e| verdict_of(e)).collect();
    // The file the harness can print (`h_poolmt matrix`): decided by rustc, not simulated.
    let rows: Vec<Value> = cells
        .iter()
        .zip(&verdicts)
        .map(|(c, v)| {
            json!({"cell": c.name(), "expect": format!("{:?}", c.expect()), "admitted": v.admitted,
                   "known_footprint": c.in_known_footprint(), "codes": v.codes, "first_error": v.first_error,
                   "ok": cell_ok(c, v)})
        })
        .collect();
    let doc = json!({"decided_by": "rustc (pinned workspace toolchain), not simulated",
        "infinity_pool": infinity_pool_path(), "rlib": tc.rlib.display().to_string(), "cells": rows});
    let _ = write_if_changed(&tc.matrix_path, &serde_json::to_string_pretty(&doc).unwrap_or_default());
    Ok(Matrix { tc, cells, verdicts, singles: std::sync::Mutex::new(BTreeMap::new()) })
}

fn cell_ok(c: &CellDef, v: &Verdict) -> bool {
    match c.expect() {
        Expect::MustReject => !v.admitted && v.auto_trait_reason,
        Expect::MustAdmit => v.admitted,
        Expect::Either => v.admitted || v.auto_trait_reason,
    }
}

static MATRIX: OnceLock<Result<Matrix, String>> = OnceLock::new();

pub fn matrix() -> Result<&'static Matrix, Violation> {
    MATRIX
        .get_or_init(build_matrix)
        .as_ref()
        .map_err(|e| Violation::new("harness-error: admission probes could not be compiled", e.clone()))
}

impl Matrix {
    /// Compiles one cell as its own crate (memoised per process).
    pub fn single(&self, idx: usize) -> Result<Verdict, Violation> {
        if let Some(v) = self.singles.lock().expect("memo").get(&idx) {
            return Ok(v.clone());
        }
        let path = self.tc.work_dir.join(format!("probe_{}_{idx:03}.rs", std::process::id()));
        let herr = |e: String| Violation::new("harness-error: admission probes could not be compiled", e);
        std::fs::write(&path, single_source(&self.cells[idx])).map_err(|e| herr(e.to_string()))?;
        let errors = rustc_check(&self.tc, &path, "bin").map_err(herr)?;
        let _ = std::fs::remove_file(&path);
        let v = verdict_of(&errors);
        self.singles.lock().expect("memo").insert(idx, v.clone());
        Ok(v)
    }

    pub fn index_of(&self, name: &str) -> Option<usize> {
        self.cells.iter().position(|c| c.name() == name)
    }
}

/// `h_poolmt matrix`: rebuilds the matrix from the current tree and prints it.
pub fn print_matrix() -> i32 {
    match build_matrix() {
        Ok(m) => {
            match std::fs::read_to_string(&m.tc.matrix_path) {
                Ok(s) => println!("{s}"),
                Err(e) => {
                    eprintln!("cannot read {}: {e}", m.tc.matrix_path.display());
                    return 2;
                }
            }
            let bad = m.cells.iter().zip(&m.verdicts).filter(|(c, v)| !cell_ok(c, v)).count();
            eprintln!("{} cells, {} not as the property demands", m.cells.len(), bad);
            0
        }
        Err(e) => {
            eprintln!("h_poolmt matrix: {e}");
            2
        }
    }
}

// ----------------------------------------------------------------------------------------------
// Scenarios
// ----------------------------------------------------------------------------------------------

fn judge(c: &CellDef, v: &Verdict, how: &str) -> Result<(), Violation> {
    let name = c.name();
    match c.expect() {
        Expect::MustReject => {
            check!(
                !v.admitted,
                "admitted-but-must-reject",
                "{name}: rustc admits this safe program ({how}); the property demands rejection \
                 (payload {} through {})",
                c.pay.label(),
                c.handle_type()
            );
            check!(
                v.auto_trait_reason,
                "probe-broken",
                "{name}: rejected, but not for an auto-trait reason ({how}): {:?} {}",
                v.codes,
                v.first_error
            );
        }
        Expect::MustAdmit => check!(
            v.admitted,
            "control-probe-rejected",
            "{name}: control program (Send + Sync payload) is rejected ({how}): {:?} {}",
            v.codes,
            v.first_error
        ),
        Expect::Either => check!(
            v.admitted || v.auto_trait_reason,
            "probe-broken",
            "{name}: rejected, but not for an auto-trait reason ({how}): {:?} {}",
            v.codes,
            v.first_error
        ),
    }
    Ok(())
}

/// Mode `admission`: one cell of the matrix.
#[derive(Clone, Debug, Serialize, Deserialize)]
pub struct AdmissionScenario {
    pub cell: String,
    /// Additionally compile the program as its own crate and require the same verdict.
    pub confirm_separately: bool,
}

fn draw_cell(rng: &mut Rng, known_only: bool) -> CellDef {
    let cells: Vec<CellDef> = all_cells()
        .into_iter()
        .filter(|c| {
            if known_only {
                c.in_known_footprint()
            } else {
                !(avoid_known() && c.in_known_footprint())
            }
        })
        .collect();
    *rng.pick(&cells)
}

fn run_admission(name: &str, confirm: bool, ctx: &mut Ctx) -> Result<bool, Violation> {
    if cfg!(miri) {
        ctx.probe("admission-skipped-under-miri");
        return Ok(false);
    }
    let m = matrix()?;
    let Some(idx) = m.index_of(name) else {
        return Err(Violation::new("harness-bug", format!("unknown cell {name}")));
    };
    let c = m.cells[idx];
    let v = &m.verdicts[idx];
    let expect = c.expect();
    ctx.event(
        simkit::mix(simkit::hash_str(name), u64::from(v.admitted)),
        || format!("{name}: expect {expect:?}, rustc {}", if v.admitted { "admits".to_owned() } else { format!("rejects ({:?})", v.codes) }),
    );
    ctx.probe(if v.admitted { "admission:admitted" } else { "admission:rejected" });
    ctx.probe(match expect {
        Expect::MustReject => "admission:cell-must-reject",
        Expect::MustAdmit => "admission:cell-control-must-admit",
        Expect::Either => "admission:cell-unconstrained",
    });
    let verdict = judge(&c, v, "all cells in one crate");
    if confirm || verdict.is_err() {
        let s = m.single(idx)?;
        ctx.probe("admission:compiled-as-own-crate");
        check!(
            s.admitted == v.admitted,
            "admission-verdicts-disagree",
            "{name}: admitted = {} in the combined crate but {} as its own crate ({:?} {})",
            v.admitted,
            s.admitted,
            s.codes,
            s.first_error
        );
        judge(&c, &s, "own crate")?;
    }
    verdict?;
    // The same program also exists inside this binary (racers.rs, selected by autoref
    // specialisation when the harness was compiled): both judges must agree.
    if let Some(r) = racers::cells().into_iter().find(|r| r.twin == name) {
        let inside = (r.run)(false) != racers::Outcome::Rejected;
        ctx.probe("admission:cross-checked-with-in-binary-program");
        check!(
            inside == v.admitted,
            "admission-verdicts-disagree",
            "{name}: rustc admits = {} for the probe file, but {} for the same program inside the harness ({})",
            v.admitted,
            inside,
            r.name
        );
    }
    Ok(expect != Expect::Either)
}

impl Scenario for AdmissionScenario {
    fn generate(rng: &mut Rng, _mode: &str) -> Self {
        let c = draw_cell(rng, false);
        Self { cell: c.name(), confirm_separately: rng.chance(1, 24) }
    }

    fn run(&self, ctx: &mut Ctx) -> Result<bool, Violation> {
        run_admission(&self.cell, self.confirm_separately, ctx)
    }
}

fn racer_by_name(name: &str) -> Option<racers::RacerCell> {
    racers::cells().into_iter().find(|c| c.name == name)
}

fn run_racer(name: &str, ctx: &mut Ctx) -> Result<bool, Violation> {
    let Some(cell) = racer_by_name(name) else {
        return Err(Violation::new("harness-bug", format!("unknown racer {name}")));
    };
    // Natively only rustc's verdict is taken; under Miri the admitted program is executed and the
    // interpreter reports the data race (the process ends there; the lines below are reached only
    // if it did not).
    let outcome = (cell.run)(cfg!(miri));
    ctx.event(simkit::mix(simkit::hash_str(name), outcome as u64), || format!("{name}: {outcome:?}"));
    match outcome {
        racers::Outcome::Rejected => {
            ctx.probe("racer:rejected-by-rustc");
            Ok(false)
        }
        racers::Outcome::Admitted | racers::Outcome::Ran => Err(Violation::new(
            "admitted-but-must-reject",
            format!(
                "{name}: rustc admits a safe program that reaches a !Sync / !Send payload from two threads \
                 ({outcome:?}; action {:?})",
                cell.action
            ),
        )),
    }
}

/// Mode `autotrait` (Miri and native): in-binary programs outside the known footprint.
#[derive(Clone, Debug, Serialize, Deserialize)]
pub struct AutoTraitScenario {
    pub racer: String,
}

impl Scenario for AutoTraitScenario {
    fn generate(rng: &mut Rng, _mode: &str) -> Self {
        let names: Vec<&'static str> = racers::cells()
            .iter()
            .filter(|c| !(avoid_known() && c.known_bad))
            .map(|c| c.name)
            .collect();
        Self { racer: (*rng.pick(&names)).to_owned() }
    }

    fn run(&self, ctx: &mut Ctx) -> Result<bool, Violation> {
        run_racer(&self.racer, ctx)
    }
}

/// Mode `known-c03-handle-sync-for-all-payloads`: under Miri one admitted racer is executed (data
/// race reported by the interpreter); natively one footprint cell is compiled as its own crate.
#[derive(Clone, Debug, Serialize, Deserialize)]
pub struct KnownScenario {
    pub racer: String,
    pub cell: String,
}

impl Scenario for KnownScenario {
    fn generate(rng: &mut Rng, _mode: &str) -> Self {
        let names: Vec<&'static str> =
            racers::cells().iter().filter(|c| c.known_bad).map(|c| c.name).collect();
        let racer = (*rng.pick(&names)).to_owned();
        let cell = draw_cell(rng, true).name();
        Self { racer, cell }
    }

    fn run(&self, ctx: &mut Ctx) -> Result<bool, Violation> {
        if cfg!(miri) {
            run_racer(&self.racer, ctx)
        } else {
            run_admission(&self.cell, true, ctx)
        }
    }
}
