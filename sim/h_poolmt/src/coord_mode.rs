//! Mode `coord` (native): 2–16 simulated threads under the op-granular coordinator. Every pool
//! operation is one critical section of the pool mutex, so operation-granular schedules are the
//! schedules that exist at this level; the instruction-level ones are mode `mt` under Miri.

use std::collections::{BTreeMap, BTreeSet};
use std::sync::Arc;

use serde::{Deserialize, Serialize};
use simkit::coord::{Coordinator, ExecError};
use simkit::{Ctx, Rng, Scenario, Violation, check};

use crate::sut::{
    Board, BoxHandle, BoxPool, Extracted, Form, Iterated, PoolKind, Seen, layout_size, new_pool,
    panic_class, set_slab_capacity,
};

#[derive(Clone, Debug, Serialize, Deserialize, PartialEq)]
pub enum Op {
    Insert { t: usize, p: u32, h: u32, layout: u8, with: bool },
    CloneH { t: usize, src: u32, h: u32 },
    DropH { t: usize, h: u32 },
    IntoShared { t: usize, h: u32 },
    IntoInner { t: usize, h: u32 },
    Erase { t: usize, h: u32 },
    CastDyn { t: usize, h: u32 },
    Read { t: usize, h: u32 },
    Bump { t: usize, h: u32 },
    WithIter { t: usize, p: u32, rev: bool },
    Reserve { t: usize, p: u32, n: usize, layout: u8 },
    Shrink { t: usize, p: u32 },
    Len { t: usize, p: u32 },
    ClonePool { t: usize, src: u32, p: u32 },
    DropPool { t: usize, p: u32 },
}

impl Op {
    fn thread_mut(&mut self) -> &mut usize {
        match self {
            Op::Insert { t, .. }
            | Op::CloneH { t, .. }
            | Op::DropH { t, .. }
            | Op::IntoShared { t, .. }
            | Op::IntoInner { t, .. }
            | Op::Erase { t, .. }
            | Op::CastDyn { t, .. }
            | Op::Read { t, .. }
            | Op::Bump { t, .. }
            | Op::WithIter { t, .. }
            | Op::Reserve { t, .. }
            | Op::Shrink { t, .. }
            | Op::Len { t, .. }
            | Op::ClonePool { t, .. }
            | Op::DropPool { t, .. } => t,
        }
    }
    fn thread(&self) -> usize {
        let mut c = self.clone();
        *c.thread_mut()
    }
}

#[derive(Clone, Debug, Serialize, Deserialize)]
pub struct CoordScenario {
    pub kind: PoolKind,
    /// Payload layout of opaque / pinned pools (blind pools choose per insert).
    pub layout: u8,
    /// Slab capacity override (hook H1); 0 = the library's own choice.
    pub cap: usize,
    pub threads: usize,
    pub ops: Vec<Op>,
    /// Remaining handles are dropped at the end on thread `(h + final_shift) % threads`.
    pub final_shift: usize,
}

#[derive(Clone, Copy, PartialEq, Eq, Debug)]
enum ObjState {
    Live,
    Destroyed,
    Extracted,
}

struct ObjModel {
    refs: usize,
    addr: usize,
    size: usize,
    layout: u8,
    ver: u32,
    inserter: usize,
    touched: u32,
    state: ObjState,
    max_refs: usize,
}

struct HEntry {
    h: BoxHandle,
    obj: u32,
    form: Form,
}

struct State {
    board: Arc<Board>,
    handles: BTreeMap<u32, HEntry>,
    objects: BTreeMap<u32, ObjModel>,
    pools: BTreeMap<u32, BoxPool>,
    freed_addrs: BTreeSet<usize>,
    kind: PoolKind,
    cap: usize,
    pools_ever_all_dropped: bool,
    foreign_drop: bool,
    multi_touch: bool,
    checked_after_pools_gone: u64,
}

fn exec_err(op: &str, e: ExecError) -> Violation {
    match e {
        ExecError::Panicked(msg) => Violation::new(&panic_class(&msg), format!("{op}: {msg}")),
        ExecError::Blocked => Violation::new("hang", format!("{op} did not return under a one-runner schedule")),
        ExecError::Dead => Violation::new("thread-dead", format!("{op}: simulated thread is gone")),
    }
}

fn on<R: Send + 'static>(
    coord: &Coordinator,
    t: usize,
    what: &str,
    f: impl FnOnce() -> R + Send + 'static,
) -> Result<R, Violation> {
    coord.exec(t, f).map_err(|e| exec_err(what, e))
}

impl State {
    fn live_count(&self) -> usize {
        self.objects.values().filter(|o| o.state == ObjState::Live).count()
    }

    fn live_count_layout(&self, layout: u8) -> usize {
        self.objects
            .values()
            .filter(|o| o.state == ObjState::Live && o.layout % 3 == layout % 3)
            .count()
    }

    fn touch(&mut self, obj: u32, t: usize) {
        if let Some(o) = self.objects.get_mut(&obj) {
            o.touched |= 1 << t;
            if o.touched.count_ones() >= 2 {
                self.multi_touch = true;
            }
        }
    }

    /// One handle of `obj` went away on thread `t`; returns whether it was the last one.
    fn release(&mut self, obj: u32, t: usize, ctx: &mut Ctx) -> bool {
        let o = self.objects.get_mut(&obj).expect("object of a live handle");
        o.refs -= 1;
        if o.inserter != t {
            self.foreign_drop = true;
            ctx.probe("handle-dropped-on-foreign-thread");
        }
        if o.refs == 0 {
            o.state = ObjState::Destroyed;
            self.freed_addrs.insert(o.addr);
            if o.inserter != t {
                ctx.probe("last-drop-on-foreign-thread");
            }
            if o.max_refs >= 3 {
                ctx.probe("last-drop-of-object-that-had>=3-handles");
            }
            true
        } else {
            false
        }
    }

    /// Every oracle that can be evaluated between two operations (all threads are parked).
    fn check_all(&mut self, ctx: &mut Ctx, after: &str) -> Result<(), Violation> {
        if let Some((class, detail)) = self.board.take_flag() {
            return Err(Violation::new(&class, format!("after {after}: {detail}")));
        }
        for (id, o) in &self.objects {
            let drops = self.board.drops_of(*id);
            match o.state {
                ObjState::Live => check!(
                    drops == 0,
                    "destroyed-before-last-handle-drop",
                    "after {after}: object {id} destroyed {drops}x while {} handle(s) exist",
                    o.refs
                ),
                ObjState::Destroyed => {
                    check!(
                        drops >= 1,
                        "not-destroyed-at-last-handle-drop",
                        "after {after}: object {id} has no handle left but was not destroyed"
                    );
                    check!(drops == 1, "double-drop", "after {after}: object {id} destroyed {drops}x");
                }
                ObjState::Extracted => check!(
                    drops == 1,
                    "double-drop",
                    "after {after}: extracted object {id} destroyed {drops}x"
                ),
            }
        }
        for (hid, e) in &self.handles {
            let o = &self.objects[&e.obj];
            check!(
                e.h.addr() == o.addr,
                "address-moved",
                "after {after}: handle {hid} of object {} points elsewhere than at insert",
                e.obj
            );
            if let Some(seen) = e.h.read() {
                check!(
                    seen == Seen { id: e.obj, ver: o.ver, pad_ok: true },
                    "canary-mismatch",
                    "after {after}: handle {hid} of object {} (ver {}) reads {seen:?}",
                    e.obj,
                    o.ver
                );
            }
        }
        let mut spans: Vec<(usize, usize, u32)> = self
            .objects
            .iter()
            .filter(|(_, o)| o.state == ObjState::Live)
            .map(|(id, o)| (o.addr, o.addr + o.size, *id))
            .collect();
        spans.sort_unstable();
        for w in spans.windows(2) {
            check!(
                w[0].1 <= w[1].0,
                "live-objects-overlap",
                "after {after}: objects {} and {} overlap in memory",
                w[0].2,
                w[1].2
            );
        }
        let live = self.live_count();
        if let Some((_, pool)) = self.pools.iter().next() {
            let len = pool.len();
            check!(
                len == live,
                "len-mismatch",
                "after {after}: len() = {len} but {live} objects are alive (all threads parked)"
            );
            check!(
                pool.is_empty() == (live == 0),
                "len-mismatch",
                "after {after}: is_empty() disagrees with {live} live objects"
            );
            if let Some(p) = pool.probe() {
                check!(
                    p.length == live,
                    "bookkeeping-inconsistent",
                    "after {after}: internal length {} vs {live} live",
                    p.length
                );
                let mut total = 0;
                for (i, s) in p.slabs.iter().enumerate() {
                    let occ = s.occupied.iter().filter(|b| **b).count();
                    check!(
                        occ == s.count && s.free_list_len == p.slab_capacity - s.count,
                        "bookkeeping-inconsistent",
                        "after {after}: slab {i}: count {} occupied tags {occ} free list {} capacity {}",
                        s.count,
                        s.free_list_len,
                        p.slab_capacity
                    );
                    check!(
                        p.vacancy_bits[i] == (s.count < p.slab_capacity),
                        "bookkeeping-inconsistent",
                        "after {after}: slab {i}: vacancy bit {} but count {} of {}",
                        p.vacancy_bits[i],
                        s.count,
                        p.slab_capacity
                    );
                    total += s.count;
                }
                check!(
                    total == live,
                    "bookkeeping-inconsistent",
                    "after {after}: slabs hold {total} objects, {live} alive"
                );
                check!(
                    pool.capacity(0) == p.slabs.len() * p.slab_capacity && pool.capacity(0) >= live,
                    "capacity-below-len",
                    "after {after}: capacity {} with {} slabs of {} and {live} live",
                    pool.capacity(0),
                    p.slabs.len(),
                    p.slab_capacity
                );
                if self.cap != 0 {
                    check!(
                        p.slab_capacity == self.cap,
                        "harness-override-ignored",
                        "slab capacity {} but override {}",
                        p.slab_capacity,
                        self.cap
                    );
                }
                if p.slabs.len() >= 2 {
                    ctx.probe("pool-has>=2-slabs");
                }
            }
        } else if !self.handles.is_empty() {
            // No pool value exists any more: storage must still serve every handle (checked by
            // the reads above).
            self.checked_after_pools_gone += 1;
        }
        Ok(())
    }
}

impl CoordScenario {
    fn run_inner(&self, ctx: &mut Ctx) -> Result<bool, Violation> {
        let threads = self.threads.clamp(1, 16);
        let max_id = self
            .ops
            .iter()
            .filter_map(|o| match o {
                Op::Insert { h, .. } => Some(*h),
                _ => None,
            })
            .max()
            .map_or(0, |m| m as usize + 1);
        let board = Board::new(max_id, false);
        let coord = Coordinator::new(threads);
        let kind = self.kind;
        let layout = self.layout;
        let first = on(&coord, 0, "create pool", move || new_pool(kind, layout))?;
        let mut st = State {
            board: Arc::clone(&board),
            handles: BTreeMap::new(),
            objects: BTreeMap::new(),
            pools: BTreeMap::new(),
            freed_addrs: BTreeSet::new(),
            kind,
            cap: self.cap,
            pools_ever_all_dropped: false,
            foreign_drop: false,
            multi_touch: false,
            checked_after_pools_gone: 0,
        };
        st.pools.insert(0, first);
        let r = self.drive(threads, &coord, &board, &mut st, ctx);
        if r.is_err() {
            // The pool is in an unknown state: dropping the remaining handles could panic or
            // corrupt memory and would mask the violation that was found. Leak them.
            std::mem::forget(std::mem::take(&mut st.handles));
            std::mem::forget(std::mem::take(&mut st.pools));
        }
        drop(coord);
        r?;
        Ok(st.multi_touch && st.foreign_drop)
    }

    fn drive(
        &self,
        threads: usize,
        coord: &Coordinator,
        board: &Arc<Board>,
        st: &mut State,
        ctx: &mut Ctx,
    ) -> Result<(), Violation> {
        let (kind, layout) = (self.kind, self.layout);
        ctx.event(
            simkit::mix(kind as u64, simkit::mix(self.cap as u64, threads as u64)),
            || format!("config: {kind:?} layout {layout} cap {} threads {threads}", self.cap),
        );

        for (i, op) in self.ops.iter().enumerate() {
            let t = op.thread() % threads;
            let label = format!("op {i} {op:?}");
            self.step(op, t, i, coord, st, ctx)?;
            st.check_all(ctx, &label)?;
        }

        // End of run: drop what is left, each handle on a scenario-determined thread.
        let left: Vec<u32> = st.handles.keys().copied().collect();
        for hid in left {
            let t = (hid as usize + self.final_shift) % threads;
            let e = st.handles.remove(&hid).expect("listed");
            let h = e.h;
            on(coord, t, "final drop", move || drop(h))?;
            st.touch(e.obj, t);
            let last = st.release(e.obj, t, ctx);
            ctx.event(simkit::mix(900, u64::from(last)), || {
                format!("final: drop handle {hid} of object {} on t{t} (last: {last})", e.obj)
            });
            st.check_all(ctx, &format!("final drop of handle {hid}"))?;
        }
        let pools: Vec<u32> = st.pools.keys().copied().collect();
        for (k, pid) in pools.into_iter().enumerate() {
            let p = st.pools.remove(&pid).expect("listed");
            let t = (k + self.final_shift) % threads;
            let (len, empty) = on(coord, t, "final len", move || {
                let r = (p.len(), p.is_empty());
                drop(p);
                r
            })?;
            check!(
                len == 0 && empty,
                "len-mismatch",
                "quiescent end state: len() = {len} with no object alive"
            );
            ctx.event(901, || format!("final: pool value {pid} len 0, dropped on t{t}"));
        }
        st.check_all(ctx, "end of run")?;
        for (id, o) in &st.objects {
            check!(
                o.state != ObjState::Live && board.drops_of(*id) == 1,
                "not-destroyed-at-last-handle-drop",
                "end of run: object {id} state {:?} drops {}",
                o.state,
                board.drops_of(*id)
            );
        }
        if st.checked_after_pools_gone > 0 {
            ctx.probe_n("oracle-sweeps-after-every-pool-value-dropped", st.checked_after_pools_gone);
        }
        Ok(())
    }

    #[allow(clippy::too_many_lines)]
    fn step(
        &self,
        op: &Op,
        t: usize,
        i: usize,
        coord: &Coordinator,
        st: &mut State,
        ctx: &mut Ctx,
    ) -> Result<(), Violation> {
        let kcode = |k: u64, a: u64, b: u64| simkit::mix(simkit::mix(k, t as u64), simkit::mix(a, b));
        match op {
            Op::Insert { p, h, layout, with, .. } => {
                if st.handles.contains_key(h) || st.objects.contains_key(h) {
                    return Ok(());
                }
                let Some(pool) = st.pools.remove(p) else { return Ok(()) };
                let layout = if st.kind == PoolKind::Blind { *layout } else { self.layout };
                let board = Arc::clone(&st.board);
                let (id, with) = (*h, *with);
                let (pool, handle) = on(coord, t, "insert", move || {
                    let handle = pool.insert(&board, id, layout, with);
                    (pool, handle)
                })?;
                st.pools.insert(*p, pool);
                let addr = handle.addr();
                if st.freed_addrs.remove(&addr) {
                    ctx.probe("insert-reused-freed-slot");
                }
                if with {
                    ctx.probe("insert_with");
                }
                st.objects.insert(
                    *h,
                    ObjModel {
                        refs: 1,
                        addr,
                        size: layout_size(layout),
                        layout,
                        ver: 0,
                        inserter: t,
                        touched: 1 << t,
                        state: ObjState::Live,
                        max_refs: 1,
                    },
                );
                st.handles.insert(*h, HEntry { h: handle, obj: *h, form: Form::Uniq });
                ctx.event(kcode(1, u64::from(*h), u64::from(layout) * 2 + u64::from(with)), || {
                    format!("{i}: t{t} insert{} via pool value {p} -> object {h} (layout {layout})",
                        if with { "_with" } else { "" })
                });
            }
            Op::CloneH { src, h, .. } => {
                if st.handles.contains_key(h) || st.objects.contains_key(h) {
                    return Ok(());
                }
                let Some(e) = st.handles.remove(src) else { return Ok(()) };
                if !e.form.is_shared() {
                    st.handles.insert(*src, e);
                    return Ok(());
                }
                let HEntry { h: handle, obj, form } = e;
                let (handle, clone) = on(coord, t, "clone handle", move || {
                    let c = handle.try_clone();
                    (handle, c)
                })?;
                st.handles.insert(*src, HEntry { h: handle, obj, form });
                let clone = clone.expect("shared forms clone");
                st.handles.insert(*h, HEntry { h: clone, obj, form });
                let o = st.objects.get_mut(&obj).expect("object");
                o.refs += 1;
                o.max_refs = o.max_refs.max(o.refs);
                let refs = o.refs;
                st.touch(obj, t);
                ctx.event(kcode(2, u64::from(*h), refs as u64), || {
                    format!("{i}: t{t} clone handle {src} -> {h} (object {obj}, {refs} handles)")
                });
            }
            Op::DropH { h, .. } => {
                let Some(e) = st.handles.remove(h) else { return Ok(()) };
                let handle = e.h;
                on(coord, t, "drop handle", move || drop(handle))?;
                st.touch(e.obj, t);
                let last = st.release(e.obj, t, ctx);
                if last && e.form.is_shared() {
                    ctx.probe("shared-last-drop");
                }
                if st.pools.is_empty() {
                    ctx.probe("handle-dropped-after-every-pool-value-gone");
                }
                ctx.event(kcode(3, u64::from(*h), u64::from(last)), || {
                    format!("{i}: t{t} drop handle {h} ({:?}) of object {} (last: {last})", e.form, e.obj)
                });
            }
            Op::IntoShared { h, .. } => {
                let Some(e) = st.handles.remove(h) else { return Ok(()) };
                if e.form.is_shared() {
                    st.handles.insert(*h, e);
                    return Ok(());
                }
                let HEntry { h: handle, obj, form } = e;
                let res = on(coord, t, "into_shared", move || handle.into_shared())?;
                let handle = res.unwrap_or_else(|h| h);
                let form2 = handle.form();
                st.handles.insert(*h, HEntry { h: handle, obj, form: form2 });
                st.touch(obj, t);
                ctx.event(kcode(4, u64::from(*h), form2.code()), || {
                    format!("{i}: t{t} into_shared handle {h}: {form:?} -> {form2:?}")
                });
            }
            Op::IntoInner { h, .. } => {
                let Some(e) = st.handles.remove(h) else { return Ok(()) };
                if e.form != Form::Uniq {
                    st.handles.insert(*h, e);
                    return Ok(());
                }
                let HEntry { h: handle, obj, .. } = e;
                let board = Arc::clone(&st.board);
                let res = on(coord, t, "into_inner", move || handle.into_inner(&board))?;
                let Ok(Extracted { seen, drops_before_value_drop, drops_after_value_drop }) = res else {
                    return Err(Violation::new("harness-bug", "into_inner refused on a unique typed handle"));
                };
                let o = st.objects.get_mut(&obj).expect("object");
                let want = Seen { id: obj, ver: o.ver, pad_ok: true };
                o.refs = 0;
                o.state = ObjState::Extracted;
                st.freed_addrs.insert(o.addr);
                if o.inserter != t {
                    st.foreign_drop = true;
                    ctx.probe("into_inner-on-foreign-thread");
                }
                st.touch(obj, t);
                ctx.event(kcode(5, u64::from(*h), u64::from(seen.ver)), || {
                    format!("{i}: t{t} into_inner handle {h} -> {seen:?}")
                });
                check!(
                    seen == want,
                    "into-inner-wrong-value",
                    "op {i}: into_inner of object {obj} returned {seen:?}, stored {want:?}"
                );
                check!(
                    drops_before_value_drop == 0,
                    "destroyed-by-into-inner",
                    "op {i}: object {obj} was destroyed {drops_before_value_drop}x although its value was moved out"
                );
                check!(
                    drops_after_value_drop == 1,
                    "double-drop",
                    "op {i}: dropping the extracted value of object {obj} gives {drops_after_value_drop} destructions"
                );
            }
            Op::Erase { h, .. } | Op::CastDyn { h, .. } => {
                let erase = matches!(op, Op::Erase { .. });
                let Some(e) = st.handles.remove(h) else { return Ok(()) };
                let ok = if erase { !e.form.is_erased() } else { e.form.is_typed() };
                if !ok {
                    st.handles.insert(*h, e);
                    return Ok(());
                }
                let HEntry { h: handle, obj, form } = e;
                let res = on(coord, t, "erase/cast", move || {
                    if erase { handle.erase() } else { handle.cast_dyn() }
                })?;
                let handle = res.unwrap_or_else(|h| h);
                let form2 = handle.form();
                st.handles.insert(*h, HEntry { h: handle, obj, form: form2 });
                st.touch(obj, t);
                ctx.event(kcode(6, u64::from(*h), form2.code()), || {
                    format!("{i}: t{t} {} handle {h}: {form:?} -> {form2:?}", if erase { "erase" } else { "cast" })
                });
            }
            Op::Read { h, .. } => {
                let Some(e) = st.handles.remove(h) else { return Ok(()) };
                let HEntry { h: handle, obj, form } = e;
                let (handle, seen) = on(coord, t, "read", move || {
                    let s = handle.read();
                    (handle, s)
                })?;
                st.handles.insert(*h, HEntry { h: handle, obj, form });
                st.touch(obj, t);
                let want = Seen { id: obj, ver: st.objects[&obj].ver, pad_ok: true };
                if st.pools.is_empty() && seen.is_some() {
                    ctx.probe("read-after-every-pool-value-gone");
                }
                ctx.event(kcode(7, u64::from(*h), seen.map_or(u64::MAX, |s| u64::from(s.ver))), || {
                    format!("{i}: t{t} read handle {h} ({form:?}) -> {seen:?}")
                });
                if let Some(seen) = seen {
                    check!(
                        seen == want,
                        "canary-mismatch",
                        "op {i}: thread {t} reads {seen:?} through handle {h}, expected {want:?}"
                    );
                }
            }
            Op::Bump { h, .. } => {
                let Some(e) = st.handles.remove(h) else { return Ok(()) };
                if !matches!(e.form, Form::Uniq | Form::UniqDyn) {
                    st.handles.insert(*h, e);
                    return Ok(());
                }
                let HEntry { h: mut handle, obj, form } = e;
                let (handle, seen) = on(coord, t, "write", move || {
                    let s = handle.bump();
                    (handle, s)
                })?;
                st.handles.insert(*h, HEntry { h: handle, obj, form });
                st.touch(obj, t);
                let o = st.objects.get_mut(&obj).expect("object");
                o.ver = o.ver.wrapping_add(1);
                let want = Seen { id: obj, ver: o.ver, pad_ok: true };
                ctx.event(kcode(8, u64::from(*h), u64::from(want.ver)), || {
                    format!("{i}: t{t} write through unique handle {h} -> {seen:?}")
                });
                check!(
                    seen == Some(want),
                    "canary-mismatch",
                    "op {i}: write through handle {h} read back {seen:?}, expected {want:?}"
                );
            }
            Op::WithIter { p, rev, .. } => {
                let Some(pool) = st.pools.remove(p) else { return Ok(()) };
                let rev = *rev;
                let (pool, it) = on(coord, t, "with_iter", move || {
                    let r = pool.iterate(rev);
                    (pool, r)
                })?;
                st.pools.insert(*p, pool);
                let Some(Iterated { mut addrs, exact_len }) = it else { return Ok(()) };
                let n = addrs.len();
                ctx.event(kcode(9, n as u64, u64::from(rev)), || {
                    format!("{i}: t{t} with_iter(rev {rev}) via pool value {p} yields {n} objects")
                });
                let mut want: Vec<usize> = st
                    .objects
                    .values()
                    .filter(|o| o.state == ObjState::Live)
                    .map(|o| o.addr)
                    .collect();
                want.sort_unstable();
                addrs.sort_unstable();
                check!(
                    addrs == want && exact_len == want.len(),
                    "iteration-mismatch",
                    "op {i}: with_iter yields {n} objects (ExactSize {exact_len}), {} are alive{}",
                    want.len(),
                    if n == want.len() { " (different addresses)" } else { "" }
                );
                if n > 0 {
                    ctx.probe("with_iter-nonempty");
                }
            }
            Op::Reserve { p, n, layout, .. } => {
                let Some(pool) = st.pools.remove(p) else { return Ok(()) };
                let layout = if st.kind == PoolKind::Blind { *layout } else { self.layout };
                let n = *n;
                let (pool, before, after) = on(coord, t, "reserve", move || {
                    let before = pool.capacity(layout);
                    pool.reserve(layout, n);
                    let after = pool.capacity(layout);
                    (pool, before, after)
                })?;
                st.pools.insert(*p, pool);
                let live = if st.kind == PoolKind::Blind {
                    st.live_count_layout(layout)
                } else {
                    st.live_count()
                };
                ctx.event(kcode(10, n as u64, (after - before.min(after)) as u64), || {
                    format!("{i}: t{t} reserve({n}) via pool value {p}: capacity {before} -> {after}")
                });
                check!(
                    after >= live + n && after >= before,
                    "reserve-too-small",
                    "op {i}: reserve({n}) with {live} live objects left capacity {after} (was {before})"
                );
                if after > before {
                    ctx.probe("reserve-grew-capacity");
                }
            }
            Op::Shrink { p, .. } => {
                let Some(pool) = st.pools.remove(p) else { return Ok(()) };
                let layout = self.layout;
                let (pool, before, after) = on(coord, t, "shrink_to_fit", move || {
                    let before = pool.capacity(layout);
                    pool.shrink();
                    let after = pool.capacity(layout);
                    (pool, before, after)
                })?;
                st.pools.insert(*p, pool);
                ctx.event(kcode(11, (before - after.min(before)) as u64, 0), || {
                    format!("{i}: t{t} shrink_to_fit via pool value {p}: capacity {before} -> {after}")
                });
                check!(
                    after <= before,
                    "shrink-grew-capacity",
                    "op {i}: shrink_to_fit changed capacity {before} -> {after}"
                );
                if after < before {
                    ctx.probe("shrink-released-slabs");
                }
            }
            Op::Len { p, .. } => {
                let Some(pool) = st.pools.remove(p) else { return Ok(()) };
                let (pool, len) = on(coord, t, "len", move || {
                    let l = pool.len();
                    (pool, l)
                })?;
                st.pools.insert(*p, pool);
                let live = st.live_count();
                ctx.event(kcode(12, len as u64, 0), || format!("{i}: t{t} len via pool value {p} -> {len}"));
                check!(
                    len == live,
                    "len-mismatch",
                    "op {i}: thread {t} reads len() = {len}, {live} objects are alive (all threads parked)"
                );
            }
            Op::ClonePool { src, p, .. } => {
                if st.pools.contains_key(p) {
                    return Ok(());
                }
                let Some(pool) = st.pools.remove(src) else { return Ok(()) };
                let (pool, clone) = on(coord, t, "clone pool", move || {
                    let c = pool.clone_pool();
                    (pool, c)
                })?;
                st.pools.insert(*src, pool);
                st.pools.insert(*p, clone);
                ctx.event(kcode(13, u64::from(*p), st.pools.len() as u64), || {
                    format!("{i}: t{t} clone pool value {src} -> {p}")
                });
            }
            Op::DropPool { p, .. } => {
                let Some(pool) = st.pools.remove(p) else { return Ok(()) };
                on(coord, t, "drop pool value", move || drop(pool))?;
                let left = st.pools.len();
                ctx.event(kcode(14, u64::from(*p), left as u64), || {
                    format!("{i}: t{t} drop pool value {p} ({left} left, {} handles alive)", st.handles.len())
                });
                if left == 0 && !st.handles.is_empty() {
                    st.pools_ever_all_dropped = true;
                    ctx.probe("every-pool-value-dropped-while-handles-live");
                }
            }
        }
        Ok(())
    }
}

/// Generator-side shadow of the handle table (forms only).
struct GenModel {
    handles: Vec<(u32, Form)>,
    pools: Vec<u32>,
    next_h: u32,
    next_p: u32,
}

impl Scenario for CoordScenario {
    #[allow(clippy::too_many_lines)]
    fn generate(rng: &mut Rng, _mode: &str) -> Self {
        let kind = *rng.pick(&[PoolKind::Opaque, PoolKind::Pinned, PoolKind::Blind]);
        let layout = rng.below(3) as u8;
        let cap = *rng.pick(&[1, 1, 2, 2, 2, 3, 4, 4, 7, 8, 0]);
        let threads = *rng.pick(&[2, 2, 3, 3, 4, 4, 5, 6, 8, 8, 11, 16]);
        let n_ops = rng.range_usize(8, 140);
        // Swarm: the operation mix is re-drawn per run.
        let mut w = [0_u32; 15];
        for x in &mut w {
            *x = *rng.pick(&[0, 1, 1, 2, 4, 8]);
        }
        w[0] = *rng.pick(&[4, 8, 12, 16]); // insert
        w[2] = w[2].max(2); // drop handle
        w[1] = w[1].max(1); // clone handle
        w[3] = w[3].max(1); // into_shared
        w[13] = w[13].min(2); // clone pool
        w[14] = w[14].min(1); // drop pool
        let kill_pools_at = if rng.chance(1, 3) { Some(rng.below_usize(n_ops)) } else { None };
        let max_handles = *rng.pick(&[6, 12, 24, 48]);
        // Thread affinity: some runs keep an object mostly on its thread, others migrate freely.
        let sticky = rng.chance(1, 4);

        let mut m = GenModel { handles: Vec::new(), pools: vec![0], next_h: 0, next_p: 1 };
        let mut ops = Vec::with_capacity(n_ops + 4);
        let mut home: BTreeMap<u32, usize> = BTreeMap::new();
        for i in 0..n_ops {
            if kill_pools_at == Some(i) {
                for p in std::mem::take(&mut m.pools) {
                    ops.push(Op::DropPool { t: rng.below_usize(threads), p });
                }
            }
            let mut t = rng.below_usize(threads);
            let k = rng.weighted(&w);
            let pool = if m.pools.is_empty() { None } else { Some(*rng.pick(&m.pools)) };
            let hidx = if m.handles.is_empty() { None } else { Some(rng.below_usize(m.handles.len())) };
            if sticky {
                if let Some(ix) = hidx {
                    if (1..=8).contains(&k) && rng.chance(3, 4) {
                        t = *home.get(&m.handles[ix].0).unwrap_or(&t);
                    }
                }
            }
            match k {
                0 => {
                    let Some(p) = pool else { continue };
                    if m.handles.len() >= max_handles {
                        continue;
                    }
                    let h = m.next_h;
                    m.next_h += 1;
                    m.handles.push((h, Form::Uniq));
                    home.insert(h, t);
                    ops.push(Op::Insert { t, p, h, layout: rng.below(3) as u8, with: rng.chance(1, 4) });
                }
                1 => {
                    let shared: Vec<usize> =
                        (0..m.handles.len()).filter(|i| m.handles[*i].1.is_shared()).collect();
                    if shared.is_empty() || m.handles.len() >= max_handles {
                        continue;
                    }
                    let (src, form) = m.handles[*rng.pick(&shared)];
                    let h = m.next_h;
                    m.next_h += 1;
                    m.handles.push((h, form));
                    home.insert(h, t);
                    ops.push(Op::CloneH { t, src, h });
                }
                2 => {
                    let Some(ix) = hidx else { continue };
                    let (h, _) = m.handles.swap_remove(ix);
                    ops.push(Op::DropH { t, h });
                }
                3 => {
                    let Some(ix) = hidx else { continue };
                    let (h, f) = m.handles[ix];
                    m.handles[ix].1 = match f {
                        Form::Uniq => Form::Shared,
                        Form::UniqDyn => Form::SharedDyn,
                        Form::UniqErased => Form::SharedErased,
                        other => other,
                    };
                    ops.push(Op::IntoShared { t, h });
                }
                4 => {
                    let uniq: Vec<usize> =
                        (0..m.handles.len()).filter(|i| m.handles[*i].1 == Form::Uniq).collect();
                    if uniq.is_empty() {
                        continue;
                    }
                    let (h, _) = m.handles.swap_remove(*rng.pick(&uniq));
                    ops.push(Op::IntoInner { t, h });
                }
                5 => {
                    let Some(ix) = hidx else { continue };
                    let (h, f) = m.handles[ix];
                    m.handles[ix].1 = if f.is_shared() { Form::SharedErased } else { Form::UniqErased };
                    ops.push(Op::Erase { t, h });
                }
                6 => {
                    let Some(ix) = hidx else { continue };
                    let (h, f) = m.handles[ix];
                    m.handles[ix].1 = match f {
                        Form::Uniq => Form::UniqDyn,
                        Form::Shared => Form::SharedDyn,
                        other => other,
                    };
                    ops.push(Op::CastDyn { t, h });
                }
                7 => {
                    let Some(ix) = hidx else { continue };
                    ops.push(Op::Read { t, h: m.handles[ix].0 });
                }
                8 => {
                    let Some(ix) = hidx else { continue };
                    ops.push(Op::Bump { t, h: m.handles[ix].0 });
                }
                9 => {
                    let Some(p) = pool else { continue };
                    ops.push(Op::WithIter { t, p, rev: rng.bool() });
                }
                10 => {
                    let Some(p) = pool else { continue };
                    ops.push(Op::Reserve { t, p, n: rng.range_usize(0, 9), layout: rng.below(3) as u8 });
                }
                11 => {
                    let Some(p) = pool else { continue };
                    ops.push(Op::Shrink { t, p });
                }
                12 => {
                    let Some(p) = pool else { continue };
                    ops.push(Op::Len { t, p });
                }
                13 => {
                    let Some(src) = pool else { continue };
                    if m.pools.len() >= 4 {
                        continue;
                    }
                    let p = m.next_p;
                    m.next_p += 1;
                    m.pools.push(p);
                    ops.push(Op::ClonePool { t, src, p });
                }
                _ => {
                    if m.pools.len() < 2 && !rng.chance(1, 8) {
                        continue;
                    }
                    let Some(p) = pool else { continue };
                    m.pools.retain(|x| *x != p);
                    ops.push(Op::DropPool { t, p });
                }
            }
        }
        Self { kind, layout, cap, threads, ops, final_shift: rng.below_usize(threads) }
    }

    fn run(&self, ctx: &mut Ctx) -> Result<bool, Violation> {
        set_slab_capacity(self.cap);
        let r = self.run_inner(ctx);
        set_slab_capacity(0);
        r
    }

    fn shrink(&self) -> Vec<Self> {
        let mut out: Vec<Self> = simkit::shrink::remove_chunks(&self.ops)
            .into_iter()
            .map(|ops| Self { ops, ..self.clone() })
            .collect();
        if self.threads > 2 {
            let threads = self.threads - 1;
            let mut c = self.clone();
            c.threads = threads;
            for op in &mut c.ops {
                let t = op.thread_mut();
                *t %= threads;
            }
            c.final_shift %= threads;
            out.push(c);
        }
        if self.final_shift > 0 {
            out.push(Self { final_shift: 0, ..self.clone() });
        }
        for (i, op) in self.ops.iter().enumerate() {
            if op.thread() != 0 {
                let mut c = self.clone();
                *c.ops[i].thread_mut() = 0;
                out.push(c);
            }
        }
        out
    }

    fn size(&self) -> usize {
        self.ops.len() * 4
            + self.threads * 200
            + self.final_shift
            + self.ops.iter().filter(|o| o.thread() != 0).count()
    }
}
