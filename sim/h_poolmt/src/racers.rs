//! In-binary executions of the auto-trait clause (meant for Miri, where no compiler can be run).
//!
//! Each cell is a *safe* program "insert a payload that does not permit sharing, obtain handle
//! form F, reach the payload from two threads". Whether the program is admitted is rustc's
//! decision, taken when this harness is compiled: autoref-based specialisation selects the
//! executing implementation iff the handle type satisfies the auto-trait bound the program needs
//! (`H: Sync` to share `&H` with a scoped thread, `H: Send` to move a handle into a thread) and a
//! fallback otherwise. No `unsafe`, so if the bound holds the execution below is something safe
//! user code can do. Under Miri the two unsynchronised `Cell` accesses are reported as a data race.

use std::cell::Cell;

use infinity_pool::{
    BlindPool, BlindPooled, BlindPooledMut, OpaquePool, PinnedPool, Pooled, PooledMut,
    define_pooled_dyn_cast,
};

/// `Send + !Sync`: may be inserted into a thread-safe pool, must never be shared.
pub struct CellPayload {
    cell: Cell<u32>,
    pad: u32,
}

impl CellPayload {
    fn new() -> Self {
        Self { cell: Cell::new(0), pad: 7 }
    }
    fn poke(&self) {
        self.cell.set(self.cell.get().wrapping_add(self.pad));
    }
}

/// No auto-trait supertraits: `dyn Bump` is neither `Send` nor `Sync`.
pub trait Bump {
    fn bump(&self);
}

impl Bump for CellPayload {
    fn bump(&self) {
        self.poke();
    }
}

define_pooled_dyn_cast!(Bump);

/// Reaches the payload through a shared reference to the handle.
pub trait Touch {
    fn touch(&self);
}

macro_rules! touch_typed {
    ($($H:ident),*) => {$(
        impl Touch for $H<CellPayload> {
            fn touch(&self) {
                self.poke();
            }
        }
        impl Touch for $H<dyn Bump> {
            fn touch(&self) {
                self.bump();
            }
        }
    )*};
}
touch_typed!(Pooled, PooledMut, BlindPooled, BlindPooledMut);

#[derive(Clone, Copy, Debug, PartialEq, Eq)]
pub enum Outcome {
    /// rustc does not admit the program (the fallback implementation was selected).
    Rejected,
    /// rustc admits the program; it was not executed (native engine: executing a data race
    /// outside an interpreter proves nothing and is undefined behaviour).
    Admitted,
    /// rustc admits the program and it ran to completion (under Miri: without a report).
    Ran,
}

pub struct Wrap<H> {
    h: Cell<Option<H>>,
    execute: bool,
}

impl<H> Wrap<H> {
    fn new(h: H, execute: bool) -> Self {
        Self { h: Cell::new(Some(h)), execute }
    }
}

const ROUNDS: usize = 3;

// ---- share `&handle` with a scoped thread --------------------------------------------------
#[allow(dead_code)]
pub trait ShareAdmitted {
    fn share(&self) -> Outcome;
}
impl<H: Sync + Touch> ShareAdmitted for Wrap<H> {
    fn share(&self) -> Outcome {
        if !self.execute {
            return Outcome::Admitted;
        }
        let h = self.h.take().expect("handle");
        std::thread::scope(|s| {
            s.spawn(|| {
                for _ in 0..ROUNDS {
                    h.touch();
                }
            });
            for _ in 0..ROUNDS {
                h.touch();
            }
        });
        Outcome::Ran
    }
}
#[allow(dead_code)]
pub trait ShareRejected {
    fn share(&self) -> Outcome;
}
impl<H> ShareRejected for &Wrap<H> {
    fn share(&self) -> Outcome {
        Outcome::Rejected
    }
}

// ---- move a clone into a thread, keep the original -----------------------------------------
#[allow(dead_code)]
pub trait MoveCloneAdmitted {
    fn move_clone(&self) -> Outcome;
}
impl<H: Send + Clone + Touch + 'static> MoveCloneAdmitted for Wrap<H> {
    fn move_clone(&self) -> Outcome {
        if !self.execute {
            return Outcome::Admitted;
        }
        let h = self.h.take().expect("handle");
        let h2 = h.clone();
        let j = std::thread::spawn(move || {
            for _ in 0..ROUNDS {
                h2.touch();
            }
        });
        for _ in 0..ROUNDS {
            h.touch();
        }
        j.join().expect("racer thread");
        Outcome::Ran
    }
}
#[allow(dead_code)]
pub trait MoveCloneRejected {
    fn move_clone(&self) -> Outcome;
}
impl<H> MoveCloneRejected for &Wrap<H> {
    fn move_clone(&self) -> Outcome {
        Outcome::Rejected
    }
}

// ---- move the only handle into a thread (no second accessor: admission is the whole verdict) --
#[allow(dead_code)]
pub trait MoveAdmitted {
    fn move_sole(&self) -> Outcome;
}
impl<H: Send + Touch + 'static> MoveAdmitted for Wrap<H> {
    fn move_sole(&self) -> Outcome {
        if !self.execute {
            return Outcome::Admitted;
        }
        let h = self.h.take().expect("handle");
        std::thread::spawn(move || {
            h.touch();
            drop(h);
        })
        .join()
        .expect("mover thread");
        Outcome::Ran
    }
}
#[allow(dead_code)]
pub trait MoveRejected {
    fn move_sole(&self) -> Outcome;
}
impl<H> MoveRejected for &Wrap<H> {
    fn move_sole(&self) -> Outcome {
        Outcome::Rejected
    }
}

#[derive(Clone, Copy, Debug, PartialEq, Eq)]
pub enum Action {
    Share,
    MoveClone,
    MoveSole,
}

pub struct RacerCell {
    pub name: &'static str,
    pub action: Action,
    /// Inside the footprint of known finding `c03-handle-sync-for-all-payloads`.
    pub known_bad: bool,
    /// Name of the cell of the rustc-judged admission matrix that is the same program.
    pub twin: String,
    /// `execute == false` only reports rustc's verdict.
    pub run: fn(bool) -> Outcome,
}

/// `opaque.Pooled<Cell>.share` -> `opaque/Pooled<T>/Send+!Sync/share`; `dyn Bump` has no auto
/// traits, so the dyn forms map to the `!Send+!Sync` column.
fn twin_of(name: &str) -> String {
    let mut parts = name.splitn(2, '.');
    let pool = parts.next().unwrap_or("");
    let rest = parts.next().unwrap_or("");
    let (handle, act) = rest.rsplit_once('.').unwrap_or((rest, ""));
    let (handle, pay) = if let Some(h) = handle.strip_suffix("<Cell>") {
        (format!("{h}<T>"), "Send+!Sync")
    } else {
        (handle.replace("<dyn>", "<dyn Tr>"), "!Send+!Sync")
    };
    format!("{pool}/{handle}/{pay}/{act}")
}

fn opaque_uniq() -> PooledMut<CellPayload> {
    OpaquePool::with_layout_of::<CellPayload>().insert(CellPayload::new())
}
fn pinned_uniq() -> PooledMut<CellPayload> {
    PinnedPool::<CellPayload>::new().insert(CellPayload::new())
}
fn blind_uniq() -> BlindPooledMut<CellPayload> {
    BlindPool::new().insert(CellPayload::new())
}

macro_rules! cell {
    ($name:literal, $action:ident, $known:literal, $method:ident, $make:expr) => {
        RacerCell {
            name: $name,
            action: Action::$action,
            known_bad: $known,
            twin: twin_of($name),
            run: |execute| {
                let h = $make;
                // Autoref specialisation: `Wrap<H>: …Admitted` if the bound holds, else `&Wrap<H>`.
                (&Wrap::new(h, execute)).$method()
            },
        }
    };
}

/// Every "must be rejected" program for which a second accessor exists, plus the sole-handle
/// moves of statically `!Send` forms.
pub fn cells() -> Vec<RacerCell> {
    vec![
        // share: payload is !Sync — every one of these must be rejected.
        cell!("opaque.PooledMut<Cell>.share", Share, true, share, opaque_uniq()),
        cell!("opaque.Pooled<Cell>.share", Share, true, share, opaque_uniq().into_shared()),
        cell!("pinned.PooledMut<Cell>.share", Share, true, share, pinned_uniq()),
        cell!("pinned.Pooled<Cell>.share", Share, true, share, pinned_uniq().into_shared()),
        cell!("blind.BlindPooledMut<Cell>.share", Share, true, share, blind_uniq()),
        cell!("blind.BlindPooled<Cell>.share", Share, true, share, blind_uniq().into_shared()),
        cell!("opaque.PooledMut<dyn>.share", Share, true, share, opaque_uniq().cast_bump()),
        cell!("opaque.Pooled<dyn>.share", Share, true, share, opaque_uniq().into_shared().cast_bump()),
        cell!("blind.BlindPooledMut<dyn>.share", Share, true, share, blind_uniq().cast_bump()),
        cell!("blind.BlindPooled<dyn>.share", Share, true, share, blind_uniq().into_shared().cast_bump()),
        // move a clone, keep the original: needs Send + Sync of the payload, like Arc.
        cell!("opaque.Pooled<Cell>.move_clone", MoveClone, true, move_clone, opaque_uniq().into_shared()),
        cell!("pinned.Pooled<Cell>.move_clone", MoveClone, true, move_clone, pinned_uniq().into_shared()),
        cell!("blind.BlindPooled<Cell>.move_clone", MoveClone, true, move_clone, blind_uniq().into_shared()),
        cell!("opaque.Pooled<dyn>.move_clone", MoveClone, false, move_clone, opaque_uniq().into_shared().cast_bump()),
        cell!("blind.BlindPooled<dyn>.move_clone", MoveClone, false, move_clone, blind_uniq().into_shared().cast_bump()),
        // move the only handle of a statically !Send form.
        cell!("opaque.PooledMut<dyn>.move", MoveSole, false, move_sole, opaque_uniq().cast_bump()),
        cell!("opaque.Pooled<dyn>.move", MoveSole, false, move_sole, opaque_uniq().into_shared().cast_bump()),
        cell!("blind.BlindPooledMut<dyn>.move", MoveSole, false, move_sole, blind_uniq().cast_bump()),
        cell!("blind.BlindPooled<dyn>.move", MoveSole, false, move_sole, blind_uniq().into_shared().cast_bump()),
    ]
}
