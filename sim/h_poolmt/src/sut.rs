//! Simulator-owned payloads and a uniform, object-safe view of the real handle and pool types of
//! `infinity_pool` (thread-safe family only). Everything behind these traits is the real code.

use std::mem::MaybeUninit;
use std::sync::atomic::{AtomicU32, Ordering};
use std::sync::{Arc, Mutex};

use infinity_pool::{
    BlindPool, BlindPooled, BlindPooledMut, OpaquePool, PinnedPool, Pooled, PooledMut,
    define_pooled_dyn_cast,
};
use serde::{Deserialize, Serialize};

/// Per-run drop accounting shared by every payload of the run. Only `Relaxed` atomics, so the
/// board adds no happens-before edge between simulated threads (matters under Miri).
pub struct Board {
    pub drops: Vec<AtomicU32>,
    /// Harness-side handle count per object (`mt` mode): decremented *before* the handle is
    /// dropped, so a destructor that observes a non-zero count ran too early.
    pub refs: Vec<AtomicU32>,
    /// Set before the harness itself drops a value it extracted with `into_inner`.
    pub extracted: Vec<AtomicU32>,
    pub check_refs_in_drop: bool,
    /// First violation noticed inside a destructor (class, detail). `flagged` is the lock-free
    /// fast path: polling it must not synchronise the simulated threads with each other.
    pub flag: Mutex<Option<(String, String)>>,
    pub flagged: std::sync::atomic::AtomicBool,
}

impl Board {
    pub fn new(objects: usize, check_refs_in_drop: bool) -> Arc<Self> {
        Arc::new(Self {
            drops: (0..objects).map(|_| AtomicU32::new(0)).collect(),
            refs: (0..objects).map(|_| AtomicU32::new(0)).collect(),
            extracted: (0..objects).map(|_| AtomicU32::new(0)).collect(),
            check_refs_in_drop,
            flag: Mutex::new(None),
            flagged: std::sync::atomic::AtomicBool::new(false),
        })
    }

    pub fn raise(&self, class: &str, detail: String) {
        let mut g = self.flag.lock().unwrap_or_else(std::sync::PoisonError::into_inner);
        if g.is_none() {
            *g = Some((class.to_owned(), detail));
        }
        drop(g);
        self.flagged.store(true, Ordering::Relaxed);
    }

    pub fn take_flag(&self) -> Option<(String, String)> {
        if !self.flagged.load(Ordering::Relaxed) {
            return None;
        }
        self.flag
            .lock()
            .unwrap_or_else(std::sync::PoisonError::into_inner)
            .clone()
    }

    pub fn drops_of(&self, id: u32) -> u32 {
        self.drops[id as usize].load(Ordering::Relaxed)
    }
}

fn canary_byte(id: u32, ver: u32, i: usize) -> u8 {
    let x = id
        .wrapping_mul(0x9E37_79B1)
        .wrapping_add(ver.wrapping_mul(0x85EB_CA6B))
        .wrapping_add((i as u32).wrapping_mul(0xC2B2_AE35));
    (x ^ (x >> 15)) as u8
}

/// What a read through a handle saw.
#[derive(Clone, Copy, Debug, PartialEq, Eq)]
pub struct Seen {
    pub id: u32,
    pub ver: u32,
    pub pad_ok: bool,
}

/// The pooled object: identity, version and `N` canary bytes derived from both.
#[repr(C)]
pub struct Payload<const N: usize> {
    board: Arc<Board>,
    id: u32,
    ver: u32,
    pad: [u8; N],
}

impl<const N: usize> Payload<N> {
    pub fn new(board: &Arc<Board>, id: u32) -> Self {
        let mut p = Self {
            board: Arc::clone(board),
            id,
            ver: 0,
            pad: [0; N],
        };
        p.fill();
        p
    }

    fn fill(&mut self) {
        for i in 0..N {
            self.pad[i] = canary_byte(self.id, self.ver, i);
        }
    }

    pub fn seen(&self) -> Seen {
        let pad_ok = (0..N).all(|i| self.pad[i] == canary_byte(self.id, self.ver, i));
        Seen {
            id: self.id,
            ver: self.ver,
            pad_ok,
        }
    }

    pub fn bump(&mut self) -> Seen {
        self.ver = self.ver.wrapping_add(1);
        self.fill();
        self.seen()
    }
}

impl<const N: usize> Drop for Payload<N> {
    fn drop(&mut self) {
        let idx = self.id as usize;
        let Some(counter) = self.board.drops.get(idx) else {
            self.board
                .raise("payload-identity-corrupt", format!("destructor ran on id {}", self.id));
            return;
        };
        let prev = counter.fetch_add(1, Ordering::Relaxed);
        if prev != 0 {
            self.board.raise(
                "double-drop",
                format!("object {} destroyed {} times", self.id, prev + 1),
            );
        }
        if !self.seen().pad_ok {
            self.board.raise(
                "canary-corrupt",
                format!("object {} had a damaged canary when it was destroyed", self.id),
            );
        }
        if self.board.check_refs_in_drop
            && self.board.extracted[idx].load(Ordering::Relaxed) == 0
            && self.board.refs[idx].load(Ordering::Relaxed) != 0
        {
            self.board.raise(
                "destroyed-before-last-handle-drop",
                format!(
                    "object {} destroyed while {} handle(s) still exist",
                    self.id,
                    self.board.refs[idx].load(Ordering::Relaxed)
                ),
            );
        }
    }
}

/// Trait-object view of a payload (the dyn-cast handle forms).
pub trait Obj: Send + Sync + Unpin {
    fn seen_dyn(&self) -> Seen;
    fn bump_dyn(&mut self) -> Seen;
}

impl<const N: usize> Obj for Payload<N> {
    fn seen_dyn(&self) -> Seen {
        self.seen()
    }
    fn bump_dyn(&mut self) -> Seen {
        self.bump()
    }
}

define_pooled_dyn_cast!(Obj);

#[derive(Clone, Copy, Debug, PartialEq, Eq, Serialize, Deserialize)]
pub enum Form {
    Uniq,
    Shared,
    UniqDyn,
    SharedDyn,
    UniqErased,
    SharedErased,
}

impl Form {
    pub fn is_shared(self) -> bool {
        matches!(self, Form::Shared | Form::SharedDyn | Form::SharedErased)
    }
    pub fn is_typed(self) -> bool {
        matches!(self, Form::Uniq | Form::Shared)
    }
    pub fn is_erased(self) -> bool {
        matches!(self, Form::UniqErased | Form::SharedErased)
    }
    pub fn code(self) -> u64 {
        self as u64
    }
}

/// Result of `into_inner`, evaluated at the instant of extraction on the extracting thread.
#[derive(Clone, Copy, Debug)]
pub struct Extracted {
    pub seen: Seen,
    pub drops_before_value_drop: u32,
    pub drops_after_value_drop: u32,
}

pub type BoxHandle = Box<dyn HandleOps>;

/// Object-safe view of one real handle. `Err(self)` = the form does not support the operation.
pub trait HandleOps: Send {
    fn form(&self) -> Form;
    /// Thin address of the target object (never logged or hashed).
    fn addr(&self) -> usize;
    /// Reads identity and canary through the handle (`None` for erased forms).
    fn read(&self) -> Option<Seen>;
    /// Rewrites version and canary through an exclusive reference (unique, non-erased forms).
    fn bump(&mut self) -> Option<Seen>;
    fn try_clone(&self) -> Option<BoxHandle>;
    fn into_shared(self: Box<Self>) -> Result<BoxHandle, BoxHandle>;
    fn into_inner(self: Box<Self>, board: &Board) -> Result<Extracted, BoxHandle>;
    fn erase(self: Box<Self>) -> Result<BoxHandle, BoxHandle>;
    fn cast_dyn(self: Box<Self>) -> Result<BoxHandle, BoxHandle>;
}

fn extract<const N: usize>(value: Payload<N>, board: &Board) -> Extracted {
    let seen = value.seen();
    let idx = seen.id as usize;
    let before = board.drops.get(idx).map_or(u32::MAX, |c| c.load(Ordering::Relaxed));
    if let Some(e) = board.extracted.get(idx) {
        e.store(1, Ordering::Relaxed);
    }
    drop(value);
    let after = board.drops.get(idx).map_or(u32::MAX, |c| c.load(Ordering::Relaxed));
    Extracted {
        seen,
        drops_before_value_drop: before,
        drops_after_value_drop: after,
    }
}

macro_rules! impl_family {
    ($Uniq:ident, $Shared:ident) => {
        impl<const N: usize> HandleOps for $Uniq<Payload<N>> {
            fn form(&self) -> Form {
                Form::Uniq
            }
            fn addr(&self) -> usize {
                self.ptr().as_ptr() as usize
            }
            fn read(&self) -> Option<Seen> {
                Some((**self).seen())
            }
            fn bump(&mut self) -> Option<Seen> {
                Some((**self).bump())
            }
            fn try_clone(&self) -> Option<BoxHandle> {
                None
            }
            fn into_shared(self: Box<Self>) -> Result<BoxHandle, BoxHandle> {
                Ok(Box::new((*self).into_shared()))
            }
            fn into_inner(self: Box<Self>, board: &Board) -> Result<Extracted, BoxHandle> {
                Ok(extract((*self).into_inner(), board))
            }
            fn erase(self: Box<Self>) -> Result<BoxHandle, BoxHandle> {
                Ok(Box::new((*self).erase()))
            }
            fn cast_dyn(self: Box<Self>) -> Result<BoxHandle, BoxHandle> {
                Ok(Box::new((*self).cast_obj()))
            }
        }

        impl<const N: usize> HandleOps for $Shared<Payload<N>> {
            fn form(&self) -> Form {
                Form::Shared
            }
            fn addr(&self) -> usize {
                self.ptr().as_ptr() as usize
            }
            fn read(&self) -> Option<Seen> {
                Some((**self).seen())
            }
            fn bump(&mut self) -> Option<Seen> {
                None
            }
            fn try_clone(&self) -> Option<BoxHandle> {
                Some(Box::new(self.clone()))
            }
            fn into_shared(self: Box<Self>) -> Result<BoxHandle, BoxHandle> {
                Err(self)
            }
            fn into_inner(self: Box<Self>, _board: &Board) -> Result<Extracted, BoxHandle> {
                Err(self)
            }
            fn erase(self: Box<Self>) -> Result<BoxHandle, BoxHandle> {
                Ok(Box::new((*self).erase()))
            }
            fn cast_dyn(self: Box<Self>) -> Result<BoxHandle, BoxHandle> {
                Ok(Box::new((*self).cast_obj()))
            }
        }

        impl HandleOps for $Uniq<dyn Obj> {
            fn form(&self) -> Form {
                Form::UniqDyn
            }
            fn addr(&self) -> usize {
                self.ptr().as_ptr().cast::<()>() as usize
            }
            fn read(&self) -> Option<Seen> {
                Some((**self).seen_dyn())
            }
            fn bump(&mut self) -> Option<Seen> {
                Some((**self).bump_dyn())
            }
            fn try_clone(&self) -> Option<BoxHandle> {
                None
            }
            fn into_shared(self: Box<Self>) -> Result<BoxHandle, BoxHandle> {
                Ok(Box::new((*self).into_shared()))
            }
            fn into_inner(self: Box<Self>, _board: &Board) -> Result<Extracted, BoxHandle> {
                Err(self)
            }
            fn erase(self: Box<Self>) -> Result<BoxHandle, BoxHandle> {
                Ok(Box::new((*self).erase()))
            }
            fn cast_dyn(self: Box<Self>) -> Result<BoxHandle, BoxHandle> {
                Err(self)
            }
        }

        impl HandleOps for $Shared<dyn Obj> {
            fn form(&self) -> Form {
                Form::SharedDyn
            }
            fn addr(&self) -> usize {
                self.ptr().as_ptr().cast::<()>() as usize
            }
            fn read(&self) -> Option<Seen> {
                Some((**self).seen_dyn())
            }
            fn bump(&mut self) -> Option<Seen> {
                None
            }
            fn try_clone(&self) -> Option<BoxHandle> {
                Some(Box::new(self.clone()))
            }
            fn into_shared(self: Box<Self>) -> Result<BoxHandle, BoxHandle> {
                Err(self)
            }
            fn into_inner(self: Box<Self>, _board: &Board) -> Result<Extracted, BoxHandle> {
                Err(self)
            }
            fn erase(self: Box<Self>) -> Result<BoxHandle, BoxHandle> {
                Ok(Box::new((*self).erase()))
            }
            fn cast_dyn(self: Box<Self>) -> Result<BoxHandle, BoxHandle> {
                Err(self)
            }
        }

        impl HandleOps for $Uniq<()> {
            fn form(&self) -> Form {
                Form::UniqErased
            }
            fn addr(&self) -> usize {
                self.ptr().as_ptr() as usize
            }
            fn read(&self) -> Option<Seen> {
                None
            }
            fn bump(&mut self) -> Option<Seen> {
                None
            }
            fn try_clone(&self) -> Option<BoxHandle> {
                None
            }
            fn into_shared(self: Box<Self>) -> Result<BoxHandle, BoxHandle> {
                Ok(Box::new((*self).into_shared()))
            }
            fn into_inner(self: Box<Self>, _board: &Board) -> Result<Extracted, BoxHandle> {
                Err(self)
            }
            fn erase(self: Box<Self>) -> Result<BoxHandle, BoxHandle> {
                Err(self)
            }
            fn cast_dyn(self: Box<Self>) -> Result<BoxHandle, BoxHandle> {
                Err(self)
            }
        }

        impl HandleOps for $Shared<()> {
            fn form(&self) -> Form {
                Form::SharedErased
            }
            fn addr(&self) -> usize {
                self.ptr().as_ptr() as usize
            }
            fn read(&self) -> Option<Seen> {
                None
            }
            fn bump(&mut self) -> Option<Seen> {
                None
            }
            fn try_clone(&self) -> Option<BoxHandle> {
                Some(Box::new(self.clone()))
            }
            fn into_shared(self: Box<Self>) -> Result<BoxHandle, BoxHandle> {
                Err(self)
            }
            fn into_inner(self: Box<Self>, _board: &Board) -> Result<Extracted, BoxHandle> {
                Err(self)
            }
            fn erase(self: Box<Self>) -> Result<BoxHandle, BoxHandle> {
                Err(self)
            }
            fn cast_dyn(self: Box<Self>) -> Result<BoxHandle, BoxHandle> {
                Err(self)
            }
        }
    };
}

impl_family!(PooledMut, Pooled);
impl_family!(BlindPooledMut, BlindPooled);

/// Payload layouts in use: index → `N` of `Payload<N>`.
#[allow(dead_code)]
pub const LAYOUTS: [usize; 3] = [0, 24, 100];

pub fn layout_size(layout: u8) -> usize {
    match layout % 3 {
        0 => size_of::<Payload<0>>(),
        1 => size_of::<Payload<24>>(),
        _ => size_of::<Payload<100>>(),
    }
}

#[derive(Clone, Copy, Debug, PartialEq, Eq, Serialize, Deserialize)]
pub enum PoolKind {
    Opaque,
    Pinned,
    Blind,
}

pub type BoxPool = Box<dyn PoolOps>;

/// What `with_iter` yielded.
pub struct Iterated {
    pub addrs: Vec<usize>,
    pub exact_len: usize,
}

/// Object-safe view of one real pool value (a pool or a clone of it).
pub trait PoolOps: Send {
    /// `layout` is honoured by blind pools only; the others have one layout.
    fn insert(&self, board: &Arc<Board>, id: u32, layout: u8, with: bool) -> BoxHandle;
    fn len(&self) -> usize;
    fn is_empty(&self) -> bool;
    fn capacity(&self, layout: u8) -> usize;
    fn reserve(&self, layout: u8, n: usize);
    fn shrink(&self);
    fn iterate(&self, rev: bool) -> Option<Iterated>;
    fn clone_pool(&self) -> BoxPool;
    fn probe(&self) -> Option<infinity_pool::verif::PoolProbe>;
}

struct OpaqueP<const N: usize>(OpaquePool);

fn collect<I>(mut it: I, rev: bool) -> Iterated
where
    I: DoubleEndedIterator<Item = usize> + ExactSizeIterator,
{
    let exact_len = it.len();
    let mut addrs = Vec::with_capacity(exact_len);
    if rev {
        // Alternate ends so that the front and back cursors meet somewhere in the middle.
        let mut front = false;
        loop {
            let next = if front { it.next() } else { it.next_back() };
            match next {
                Some(a) => addrs.push(a),
                None => break,
            }
            front = !front;
        }
    } else {
        addrs.extend(it);
    }
    Iterated { addrs, exact_len }
}

impl<const N: usize> PoolOps for OpaqueP<N> {
    fn insert(&self, board: &Arc<Board>, id: u32, _layout: u8, with: bool) -> BoxHandle {
        if with {
            // SAFETY: the closure fully initialises the object.
            let h = unsafe {
                self.0.insert_with(|u: &mut MaybeUninit<Payload<N>>| {
                    u.write(Payload::<N>::new(board, id));
                })
            };
            Box::new(h)
        } else {
            Box::new(self.0.insert(Payload::<N>::new(board, id)))
        }
    }
    fn len(&self) -> usize {
        self.0.len()
    }
    fn is_empty(&self) -> bool {
        self.0.is_empty()
    }
    fn capacity(&self, _layout: u8) -> usize {
        self.0.capacity()
    }
    fn reserve(&self, _layout: u8, n: usize) {
        self.0.reserve(n);
    }
    fn shrink(&self) {
        self.0.shrink_to_fit();
    }
    fn iterate(&self, rev: bool) -> Option<Iterated> {
        Some(self.0.with_iter(|it| collect(it.map(|p| p.as_ptr() as usize), rev)))
    }
    fn clone_pool(&self) -> BoxPool {
        Box::new(OpaqueP::<N>(self.0.clone()))
    }
    fn probe(&self) -> Option<infinity_pool::verif::PoolProbe> {
        Some(self.0.verif_probe())
    }
}

impl<const N: usize> PoolOps for PinnedPool<Payload<N>> {
    fn insert(&self, board: &Arc<Board>, id: u32, _layout: u8, with: bool) -> BoxHandle {
        if with {
            // SAFETY: the closure fully initialises the object.
            let h = unsafe {
                self.insert_with(|u: &mut MaybeUninit<Payload<N>>| {
                    u.write(Payload::<N>::new(board, id));
                })
            };
            Box::new(h)
        } else {
            Box::new(PinnedPool::insert(self, Payload::<N>::new(board, id)))
        }
    }
    fn len(&self) -> usize {
        PinnedPool::len(self)
    }
    fn is_empty(&self) -> bool {
        PinnedPool::is_empty(self)
    }
    fn capacity(&self, _layout: u8) -> usize {
        PinnedPool::capacity(self)
    }
    fn reserve(&self, _layout: u8, n: usize) {
        PinnedPool::reserve(self, n);
    }
    fn shrink(&self) {
        self.shrink_to_fit();
    }
    fn iterate(&self, rev: bool) -> Option<Iterated> {
        Some(self.with_iter(|it| collect(it.map(|p| p.as_ptr() as usize), rev)))
    }
    fn clone_pool(&self) -> BoxPool {
        Box::new(self.clone())
    }
    fn probe(&self) -> Option<infinity_pool::verif::PoolProbe> {
        Some(self.verif_probe())
    }
}

impl PoolOps for BlindPool {
    fn insert(&self, board: &Arc<Board>, id: u32, layout: u8, with: bool) -> BoxHandle {
        fn go<const N: usize>(pool: &BlindPool, board: &Arc<Board>, id: u32, with: bool) -> BoxHandle {
            if with {
                // SAFETY: the closure fully initialises the object.
                let h = unsafe {
                    pool.insert_with(|u: &mut MaybeUninit<Payload<N>>| {
                        u.write(Payload::<N>::new(board, id));
                    })
                };
                Box::new(h)
            } else {
                Box::new(pool.insert(Payload::<N>::new(board, id)))
            }
        }
        match layout % 3 {
            0 => go::<0>(self, board, id, with),
            1 => go::<24>(self, board, id, with),
            _ => go::<100>(self, board, id, with),
        }
    }
    fn len(&self) -> usize {
        BlindPool::len(self)
    }
    fn is_empty(&self) -> bool {
        BlindPool::is_empty(self)
    }
    fn capacity(&self, layout: u8) -> usize {
        match layout % 3 {
            0 => self.capacity_for::<Payload<0>>(),
            1 => self.capacity_for::<Payload<24>>(),
            _ => self.capacity_for::<Payload<100>>(),
        }
    }
    fn reserve(&self, layout: u8, n: usize) {
        match layout % 3 {
            0 => self.reserve_for::<Payload<0>>(n),
            1 => self.reserve_for::<Payload<24>>(n),
            _ => self.reserve_for::<Payload<100>>(n),
        }
    }
    fn shrink(&self) {
        self.shrink_to_fit();
    }
    fn iterate(&self, _rev: bool) -> Option<Iterated> {
        None
    }
    fn clone_pool(&self) -> BoxPool {
        Box::new(self.clone())
    }
    fn probe(&self) -> Option<infinity_pool::verif::PoolProbe> {
        None
    }
}

/// Creates the first pool value of a run. The slab-capacity override must already be set.
pub fn new_pool(kind: PoolKind, layout: u8) -> BoxPool {
    match (kind, layout % 3) {
        (PoolKind::Opaque, 0) => Box::new(OpaqueP::<0>(OpaquePool::with_layout_of::<Payload<0>>())),
        (PoolKind::Opaque, 1) => Box::new(OpaqueP::<24>(OpaquePool::with_layout_of::<Payload<24>>())),
        (PoolKind::Opaque, _) => Box::new(OpaqueP::<100>(OpaquePool::with_layout_of::<Payload<100>>())),
        (PoolKind::Pinned, 0) => Box::new(PinnedPool::<Payload<0>>::new()),
        (PoolKind::Pinned, 1) => Box::new(PinnedPool::<Payload<24>>::new()),
        (PoolKind::Pinned, _) => Box::new(PinnedPool::<Payload<100>>::new()),
        (PoolKind::Blind, _) => Box::new(BlindPool::new()),
    }
}

/// Slab capacity override (hook H1). Zero restores the library's own choice.
pub fn set_slab_capacity(cap: usize) {
    infinity_pool::verif::set_slab_capacity_override(cap);
}

/// Masks digits the way simkit does for escaped panics, so classes stay stable under shrinking.
pub fn panic_class(msg: &str) -> String {
    let mut class = String::from("panic: ");
    let mut last_hash = false;
    for ch in msg.chars().take(100) {
        if ch.is_ascii_digit() {
            if !last_hash {
                class.push('#');
            }
            last_hash = true;
        } else {
            last_hash = false;
            class.push(if ch == '\n' { ' ' } else { ch });
        }
    }
    class
}
