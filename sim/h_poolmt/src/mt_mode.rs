//! Mode `mt` (meant for Miri): 2–4 real `std::thread` threads run short scripts *concurrently*
//! against one pool, its clones and pre-distributed handles. Miri's seeded scheduler preempts
//! inside the library's operations and is the data-race / use-after-free / leak / deadlock oracle;
//! the harness adds the end-state oracles (drop counters, canaries, quiescent `len`).
//!
//! The harness itself synchronises only through `Relaxed` atomics and the channels that carry
//! handles between threads (a hand-over is a happens-before edge by its nature), so it does not
//! hide a missing edge inside the library.

use std::sync::Arc;
use std::sync::atomic::{AtomicBool, AtomicU32, AtomicU64, Ordering};
use std::sync::mpsc::{Receiver, Sender, channel};

use serde::{Deserialize, Serialize};
use simkit::{Ctx, Rng, Scenario, Violation, check};

use crate::sut::{
    Board, BoxHandle, BoxPool, Form, PoolKind, Seen, new_pool, panic_class, set_slab_capacity,
};

#[derive(Clone, Debug, Serialize, Deserialize, PartialEq)]
pub enum MtOp {
    Insert { layout: u8, with: bool },
    Clone { slot: usize },
    Drop { slot: usize },
    Read { slot: usize },
    Bump { slot: usize },
    IntoShared { slot: usize },
    IntoInner { slot: usize },
    Erase { slot: usize },
    CastDyn { slot: usize },
    SendTo { slot: usize, to: usize },
    Recv,
    WithIter { rev: bool },
    Reserve { n: usize, layout: u8 },
    Shrink,
    Len,
    ClonePool,
    DropPool,
}

/// An object inserted by the main thread before the workers start.
#[derive(Clone, Debug, Serialize, Deserialize, PartialEq)]
pub struct Pre {
    pub layout: u8,
    /// Threads that receive a handle. One holder and `shared == false`: the unique handle itself;
    /// otherwise clones of one shared handle.
    pub holders: Vec<usize>,
    pub shared: bool,
    /// The main thread keeps one more clone until after the join (shared only).
    pub main_keeps: bool,
}

#[derive(Clone, Debug, Serialize, Deserialize)]
pub struct MtScenario {
    pub kind: PoolKind,
    pub layout: u8,
    pub cap: usize,
    pub pre: Vec<Pre>,
    /// Per thread: starts with its own clone of the pool value.
    pub pool_for: Vec<bool>,
    pub main_keeps_pool: bool,
    pub scripts: Vec<Vec<MtOp>>,
    /// Per thread: drops what it still holds itself (otherwise main does after the join).
    pub drop_at_end: Vec<bool>,
}

struct Held {
    h: BoxHandle,
    obj: u32,
    ver: u32,
    size: usize,
}

struct Shared {
    board: Arc<Board>,
    next_id: AtomicU32,
    max_objects: u32,
    stamp: AtomicU64,
    touched: Vec<AtomicU32>,
    inserter: Vec<AtomicU32>,
    /// Start gate: scripts begin only once every worker thread exists (thread creation takes far
    /// longer than a script; without the gate the threads rarely overlap at all).
    started: AtomicU32,
    n_threads: u32,
    multi_touch: AtomicBool,
    foreign_drop: AtomicBool,
    keep_text: bool,
}

impl Shared {
    fn touch(&self, obj: u32, me: usize) {
        let prev = self.touched[obj as usize].fetch_or(1 << me, Ordering::Relaxed);
        if (prev | (1 << me)).count_ones() >= 2 {
            self.multi_touch.store(true, Ordering::Relaxed);
        }
    }
    fn note_release(&self, obj: u32, me: usize) {
        if self.inserter[obj as usize].load(Ordering::Relaxed) != me as u32 {
            self.foreign_drop.store(true, Ordering::Relaxed);
        }
    }
}

struct Rest {
    left: Vec<Held>,
    pools: Vec<BoxPool>,
    main_pool: Option<BoxPool>,
}

struct Event {
    stamp: u64,
    code: u64,
    text: String,
}

struct WorkerOut {
    events: Vec<Event>,
    left: Vec<Held>,
    rx: Receiver<Held>,
    pools: Vec<BoxPool>,
    result: Result<(), Violation>,
    probes: Vec<&'static str>,
}

struct Worker {
    me: usize,
    held: Vec<Held>,
    pools: Vec<BoxPool>,
    txs: Vec<Sender<Held>>,
    sh: Arc<Shared>,
    events: Vec<Event>,
    probes: Vec<&'static str>,
    kind: PoolKind,
    layout: u8,
}

impl Worker {
    fn ev(&mut self, code: u64, text: impl FnOnce() -> String) {
        let stamp = self.sh.stamp.fetch_add(1, Ordering::Relaxed);
        let text = if self.sh.keep_text { text() } else { String::new() };
        self.events.push(Event { stamp, code: simkit::mix(self.me as u64, code), text });
    }

    fn flag(&self) -> Result<(), Violation> {
        match self.sh.board.take_flag() {
            Some((class, detail)) => Err(Violation::new(&class, detail)),
            None => Ok(()),
        }
    }

    /// Drops one handle the way every path must: harness count first (so a destructor that still
    /// sees a non-zero count ran too early), then the real handle. Only for a *unique* handle is
    /// "the destructor has run when the drop returns" decidable on the spot: with shared handles
    /// the thread that decrements the harness count last need not be the one whose real drop is
    /// last, and a relaxed read of another thread's destructor count may be stale. Shared handles
    /// are therefore judged by the destructor-time check and at quiescence (after the join, while
    /// the pool values still exist).
    fn release(&mut self, held: Held, why: &str) -> Result<(), Violation> {
        let Held { h, obj, .. } = held;
        let me = self.me;
        let unique = !h.form().is_shared();
        let prev = self.sh.board.refs[obj as usize].fetch_sub(1, Ordering::Relaxed);
        self.sh.touch(obj, me);
        self.sh.note_release(obj, me);
        drop(h);
        if unique {
            let d = self.sh.board.drops_of(obj);
            check!(
                d == 1,
                "not-destroyed-at-last-handle-drop",
                "thread {me} {why}: unique handle of object {obj} dropped, destructor ran {d}x"
            );
        }
        if prev == 1 {
            self.probes.push("mt-last-handle-dropped-by-worker");
        }
        self.ev(simkit::mix(3, u64::from(unique)), || {
            format!("t{me} {why}: drop a {} handle of object {obj}", if unique { "unique" } else { "shared" })
        });
        self.flag()
    }

    fn check_seen(&self, held: &Held, seen: Option<Seen>, what: &str) -> Result<(), Violation> {
        if let Some(seen) = seen {
            let want = Seen { id: held.obj, ver: held.ver, pad_ok: true };
            check!(
                seen == want,
                "canary-mismatch",
                "thread {} {what}: object {} reads {seen:?}, expected {want:?}",
                self.me,
                held.obj
            );
        }
        Ok(())
    }

    #[allow(clippy::too_many_lines)]
    fn step(&mut self, op: &MtOp, rx: &Receiver<Held>) -> Result<(), Violation> {
        let me = self.me;
        let n = self.held.len();
        match op {
            MtOp::Insert { layout, with } => {
                let Some(pool) = self.pools.last() else { return Ok(()) };
                let id = self.sh.next_id.fetch_add(1, Ordering::Relaxed);
                if id >= self.sh.max_objects {
                    return Ok(());
                }
                let layout = if self.kind == PoolKind::Blind { *layout } else { self.layout };
                self.sh.board.refs[id as usize].store(1, Ordering::Relaxed);
                self.sh.inserter[id as usize].store(me as u32, Ordering::Relaxed);
                let h = pool.insert(&self.sh.board, id, layout, *with);
                let held = Held { h, obj: id, ver: 0, size: crate::sut::layout_size(layout) };
                let seen = held.h.read();
                self.check_seen(&held, seen, "after insert")?;
                // A fresh object must not share memory with anything this thread keeps alive.
                let (a, sz) = (held.h.addr(), held.size);
                for other in &self.held {
                    let b = other.h.addr();
                    check!(
                        b >= a + sz || a >= b + other.size,
                        "live-objects-overlap",
                        "thread {me}: new object {id} overlaps live object {}",
                        other.obj
                    );
                }
                self.sh.touch(id, me);
                self.held.push(held);
                self.ev(simkit::mix(1, u64::from(layout)), || format!("t{me} insert -> object {id}"));
            }
            MtOp::Clone { slot } => {
                if n == 0 {
                    return Ok(());
                }
                let src = &self.held[slot % n];
                let (obj, ver, size) = (src.obj, src.ver, src.size);
                if !src.h.form().is_shared() {
                    return Ok(());
                }
                self.sh.board.refs[obj as usize].fetch_add(1, Ordering::Relaxed);
                let c = src.h.try_clone().expect("shared forms clone");
                self.sh.touch(obj, me);
                self.held.push(Held { h: c, obj, ver, size });
                self.ev(2, || format!("t{me} clone a handle of object {obj}"));
            }
            MtOp::Drop { slot } => {
                if n == 0 {
                    return Ok(());
                }
                let held = self.held.swap_remove(slot % n);
                self.release(held, "script")?;
            }
            MtOp::Read { slot } => {
                if n == 0 {
                    return Ok(());
                }
                let held = &self.held[slot % n];
                let seen = held.h.read();
                self.check_seen(held, seen, "read")?;
                let obj = held.obj;
                self.sh.touch(obj, me);
                if self.pools.is_empty() {
                    self.probes.push("mt-read-without-own-pool-value");
                }
                self.ev(simkit::mix(7, seen.map_or(u64::MAX, |s| u64::from(s.ver))), || {
                    format!("t{me} read object {obj} -> {seen:?}")
                });
            }
            MtOp::Bump { slot } => {
                if n == 0 {
                    return Ok(());
                }
                let held = &mut self.held[slot % n];
                if !matches!(held.h.form(), Form::Uniq | Form::UniqDyn) {
                    return Ok(());
                }
                let seen = held.h.bump();
                held.ver = held.ver.wrapping_add(1);
                let (obj, ver) = (held.obj, held.ver);
                let held = &self.held[slot % n];
                self.check_seen(held, seen, "write")?;
                self.sh.touch(obj, me);
                self.ev(simkit::mix(8, u64::from(ver)), || format!("t{me} write object {obj} -> ver {ver}"));
            }
            MtOp::IntoShared { slot } | MtOp::Erase { slot } | MtOp::CastDyn { slot } => {
                if n == 0 {
                    return Ok(());
                }
                let Held { h, obj, ver, size } = self.held.swap_remove(slot % n);
                let before = h.form();
                let h = match op {
                    MtOp::IntoShared { .. } => h.into_shared(),
                    MtOp::Erase { .. } => h.erase(),
                    _ => h.cast_dyn(),
                }
                .unwrap_or_else(|h| h);
                let after = h.form();
                self.sh.touch(obj, me);
                self.held.push(Held { h, obj, ver, size });
                self.ev(simkit::mix(4, simkit::mix(before.code(), after.code())), || {
                    format!("t{me} convert handle of object {obj}: {before:?} -> {after:?}")
                });
            }
            MtOp::IntoInner { slot } => {
                if n == 0 {
                    return Ok(());
                }
                if self.held[slot % n].h.form() != Form::Uniq {
                    return Ok(());
                }
                let Held { h, obj, ver, .. } = self.held.swap_remove(slot % n);
                self.sh.board.refs[obj as usize].fetch_sub(1, Ordering::Relaxed);
                self.sh.touch(obj, me);
                self.sh.note_release(obj, me);
                let Ok(x) = h.into_inner(&self.sh.board) else {
                    return Err(Violation::new("harness-bug", "into_inner refused on a unique typed handle"));
                };
                let want = Seen { id: obj, ver, pad_ok: true };
                check!(
                    x.seen == want,
                    "into-inner-wrong-value",
                    "thread {me}: into_inner of object {obj} returned {:?}, stored {want:?}",
                    x.seen
                );
                check!(
                    x.drops_before_value_drop == 0 && x.drops_after_value_drop == 1,
                    "double-drop",
                    "thread {me}: into_inner of object {obj}: destructor count {} before / {} after dropping the value",
                    x.drops_before_value_drop,
                    x.drops_after_value_drop
                );
                self.ev(5, || format!("t{me} into_inner object {obj}"));
            }
            MtOp::SendTo { slot, to } => {
                if n == 0 {
                    return Ok(());
                }
                let to = to % self.txs.len();
                if to == me {
                    return Ok(());
                }
                let held = self.held.swap_remove(slot % n);
                let obj = held.obj;
                self.ev(simkit::mix(15, to as u64), || format!("t{me} sends a handle of object {obj} to t{to}"));
                if let Err(e) = self.txs[to].send(held) {
                    // The receiver is only dropped after every worker has been joined.
                    self.held.push(e.0);
                }
            }
            MtOp::Recv => {
                if let Ok(held) = rx.try_recv() {
                    let seen = held.h.read();
                    self.check_seen(&held, seen, "received handle")?;
                    let obj = held.obj;
                    self.sh.touch(obj, me);
                    self.held.push(held);
                    self.probes.push("mt-handle-received-from-other-thread");
                    self.ev(16, || format!("t{me} received a handle of object {obj}"));
                }
            }
            MtOp::WithIter { rev } => {
                let Some(pool) = self.pools.last() else { return Ok(()) };
                let Some(it) = pool.iterate(*rev) else { return Ok(()) };
                let mut addrs = it.addrs;
                let count = addrs.len();
                check!(
                    count == it.exact_len,
                    "iteration-mismatch",
                    "thread {me}: with_iter yielded {count} objects, ExactSizeIterator said {}",
                    it.exact_len
                );
                addrs.sort_unstable();
                check!(
                    addrs.windows(2).all(|w| w[0] != w[1]),
                    "iteration-mismatch",
                    "thread {me}: with_iter yielded the same object twice"
                );
                for held in &self.held {
                    check!(
                        addrs.binary_search(&held.h.addr()).is_ok(),
                        "iteration-mismatch",
                        "thread {me}: object {} is alive (this thread holds a handle) but with_iter skipped it",
                        held.obj
                    );
                }
                // Not logged with its count: the count depends on the other threads' progress.
                self.ev(9, || format!("t{me} with_iter ({count} objects at that instant)"));
            }
            MtOp::Reserve { n: add, layout } => {
                let Some(pool) = self.pools.last() else { return Ok(()) };
                let layout = if self.kind == PoolKind::Blind { *layout } else { self.layout };
                pool.reserve(layout, *add);
                self.ev(simkit::mix(10, *add as u64), || format!("t{me} reserve({add})"));
            }
            MtOp::Shrink => {
                let Some(pool) = self.pools.last() else { return Ok(()) };
                pool.shrink();
                self.ev(11, || format!("t{me} shrink_to_fit"));
            }
            MtOp::Len => {
                let Some(pool) = self.pools.last() else { return Ok(()) };
                let len = pool.len();
                let mut mine: Vec<u32> = self.held.iter().map(|h| h.obj).collect();
                mine.sort_unstable();
                mine.dedup();
                check!(
                    len >= mine.len() && len <= self.sh.max_objects as usize,
                    "len-mismatch",
                    "thread {me}: len() = {len} while this thread alone keeps {} objects alive",
                    mine.len()
                );
                self.ev(12, || format!("t{me} len ({len} at that instant)"));
            }
            MtOp::ClonePool => {
                let Some(pool) = self.pools.last() else { return Ok(()) };
                if self.pools.len() < 3 {
                    let c = pool.clone_pool();
                    self.pools.push(c);
                    self.ev(13, || format!("t{me} clone pool value"));
                }
            }
            MtOp::DropPool => {
                if let Some(p) = self.pools.pop() {
                    drop(p);
                    let left = self.pools.len();
                    if left == 0 && !self.held.is_empty() {
                        self.probes.push("mt-thread-dropped-its-pool-values-while-holding-handles");
                    }
                    self.ev(simkit::mix(14, left as u64), || format!("t{me} drop pool value ({left} left here)"));
                }
            }
        }
        self.flag()
    }
}

fn run_worker(
    me: usize,
    script: Vec<MtOp>,
    held: Vec<Held>,
    pools: Vec<BoxPool>,
    rx: Receiver<Held>,
    txs: Vec<Sender<Held>>,
    sh: Arc<Shared>,
    kind: PoolKind,
    layout: u8,
    drop_at_end: bool,
) -> WorkerOut {
    let mut w = Worker { me, held, pools, txs, sh, events: Vec::new(), probes: Vec::new(), kind, layout };
    let mut result = Ok(());
    // Relaxed and bounded: lines the threads up without ordering their memory accesses.
    w.sh.started.fetch_add(1, Ordering::Relaxed);
    let mut spins = 0_u32;
    while w.sh.started.load(Ordering::Relaxed) < w.sh.n_threads && spins < 5000 {
        std::thread::yield_now();
        spins += 1;
    }
    for op in &script {
        result = w.step(op, &rx);
        if result.is_err() {
            break;
        }
    }
    if result.is_ok() {
        // Adopt whatever the other threads sent and this script did not pick up.
        while let Ok(held) = rx.try_recv() {
            let seen = held.h.read();
            result = w.check_seen(&held, seen, "received handle");
            let obj = held.obj;
            w.sh.touch(obj, me);
            w.held.push(held);
            w.probes.push("mt-handle-received-from-other-thread");
            w.ev(16, || format!("t{me} received a handle of object {obj} (end of script)"));
            if result.is_err() {
                break;
            }
        }
    }
    if result.is_ok() && drop_at_end {
        // Verify, then drop, everything still held — concurrently with the other threads.
        while let Some(held) = w.held.pop() {
            let seen = held.h.read();
            result = w.check_seen(&held, seen, "before final drop").and_then(|()| w.release(held, "end of script"));
            if result.is_err() {
                break;
            }
        }
        w.pools.clear();
    }
    WorkerOut { events: w.events, left: w.held, rx, pools: w.pools, result, probes: w.probes }
}

impl MtScenario {
    fn max_objects(&self) -> usize {
        self.pre.len()
            + self
                .scripts
                .iter()
                .flatten()
                .filter(|o| matches!(o, MtOp::Insert { .. }))
                .count()
    }

    #[allow(clippy::too_many_lines)]
    fn run_inner(&self, ctx: &mut Ctx) -> Result<bool, Violation> {
        let threads = self.scripts.len().clamp(1, 8);
        let max_objects = self.max_objects().max(1);
        let board = Board::new(max_objects, true);
        let sh = Arc::new(Shared {
            board: Arc::clone(&board),
            next_id: AtomicU32::new(0),
            max_objects: max_objects as u32,
            stamp: AtomicU64::new(0),
            touched: (0..max_objects).map(|_| AtomicU32::new(0)).collect(),
            inserter: (0..max_objects).map(|_| AtomicU32::new(u32::MAX)).collect(),
            started: AtomicU32::new(0),
            n_threads: threads as u32,
            multi_touch: AtomicBool::new(false),
            foreign_drop: AtomicBool::new(false),
            keep_text: ctx.keep_log,
        });
        ctx.event(
            simkit::mix(self.kind as u64, simkit::mix(self.cap as u64, threads as u64)),
            || format!("config: {:?} layout {} cap {} threads {threads}", self.kind, self.layout, self.cap),
        );

        // Set-up on the main thread (id u32::MAX as inserter: every worker is "foreign").
        let pool = new_pool(self.kind, self.layout);
        let mut per_thread: Vec<Vec<Held>> = (0..threads).map(|_| Vec::new()).collect();
        let mut main_held: Vec<Held> = Vec::new();
        for pre in &self.pre {
            let id = sh.next_id.fetch_add(1, Ordering::Relaxed);
            let layout = if self.kind == PoolKind::Blind { pre.layout } else { self.layout };
            board.refs[id as usize].store(1, Ordering::Relaxed);
            let h = pool.insert(&board, id, layout, false);
            let holders: Vec<usize> = pre.holders.iter().map(|t| t % threads).collect();
            if !pre.shared && holders.len() == 1 {
                per_thread[holders[0]].push(Held { h, obj: id, ver: 0, size: crate::sut::layout_size(layout) });
                ctx.event(simkit::mix(20, holders[0] as u64), || {
                    format!("setup: object {id}, unique handle to t{}", holders[0])
                });
                continue;
            }
            let shared = h.into_shared().unwrap_or_else(|h| h);
            for t in &holders {
                board.refs[id as usize].fetch_add(1, Ordering::Relaxed);
                per_thread[*t].push(Held { h: shared.try_clone().expect("shared"), obj: id, ver: 0, size: crate::sut::layout_size(layout) });
            }
            ctx.event(simkit::mix(21, holders.len() as u64), || {
                format!("setup: object {id}, shared handle cloned to threads {holders:?} (main keeps one: {})", pre.main_keeps)
            });
            if pre.main_keeps || holders.is_empty() {
                main_held.push(Held { h: shared, obj: id, ver: 0, size: crate::sut::layout_size(layout) });
            } else {
                board.refs[id as usize].fetch_sub(1, Ordering::Relaxed);
                drop(shared);
            }
        }
        let mut worker_pools: Vec<Vec<BoxPool>> = Vec::new();
        for t in 0..threads {
            let mut v = Vec::new();
            if self.pool_for.get(t).copied().unwrap_or(true) {
                v.push(pool.clone_pool());
            }
            worker_pools.push(v);
        }
        let main_pool = if self.main_keeps_pool {
            Some(pool)
        } else {
            drop(pool);
            None
        };
        if let Some((class, detail)) = board.take_flag() {
            return Err(Violation::new(&class, format!("during set-up: {detail}")));
        }

        let mut txs = Vec::new();
        let mut rxs = Vec::new();
        for _ in 0..threads {
            let (tx, rx) = channel::<Held>();
            txs.push(tx);
            rxs.push(rx);
        }
        let mut joins = Vec::new();
        for (t, ((held, pools), rx)) in per_thread.into_iter().zip(worker_pools).zip(rxs).enumerate().rev() {
            let script = self.scripts[t].clone();
            let txs = txs.clone();
            let sh = Arc::clone(&sh);
            let (kind, layout) = (self.kind, self.layout);
            let drop_at_end = self.drop_at_end.get(t).copied().unwrap_or(true);
            joins.push((
                t,
                std::thread::spawn(move || {
                    run_worker(t, script, held, pools, rx, txs, sh, kind, layout, drop_at_end)
                }),
            ));
        }
        drop(txs);

        let mut outs: Vec<(usize, WorkerOut)> = Vec::new();
        let mut first_err: Option<Violation> = None;
        for (t, j) in joins {
            match j.join() {
                Ok(out) => outs.push((t, out)),
                Err(p) => {
                    let msg = simkit::panic_message(&p);
                    first_err.get_or_insert(Violation::new(&panic_class(&msg), format!("thread {t}: {msg}")));
                }
            }
        }
        outs.sort_by_key(|(t, _)| *t);

        // Quiescent from here on. Harness-level interleaving: events ordered by the relaxed stamp.
        let mut events: Vec<Event> = Vec::new();
        for (_, out) in &mut outs {
            events.append(&mut out.events);
            for p in &out.probes {
                ctx.probe(p);
            }
        }
        events.sort_by_key(|e| e.stamp);
        for e in events {
            let text = e.text;
            ctx.event(e.code, move || text);
        }
        for (_, out) in &mut outs {
            if let Err(v) = std::mem::replace(&mut out.result, Ok(())) {
                first_err.get_or_insert(v);
            }
        }
        // Leftovers: returned by workers, still in flight in a channel, or kept by main.
        let mut rest = Rest { left: main_held, pools: Vec::new(), main_pool };
        let mut in_flight = 0_u64;
        for (_, out) in outs {
            rest.left.extend(out.left);
            while let Ok(h) = out.rx.try_recv() {
                in_flight += 1;
                rest.left.push(h);
            }
            rest.pools.extend(out.pools);
        }
        if let Some(v) = first_err {
            // Unknown pool state: leak what is left instead of risking a secondary failure.
            std::mem::forget(rest);
            return Err(v);
        }
        if in_flight > 0 {
            ctx.probe_n("mt-handles-in-flight-at-join", in_flight);
        }
        let created = sh.next_id.load(Ordering::Relaxed).min(max_objects as u32);
        let r = Self::finish(&mut rest, &board, created, ctx);
        if r.is_err() {
            std::mem::forget(rest);
        }
        r?;
        let nt = sh.multi_touch.load(Ordering::Relaxed) && sh.foreign_drop.load(Ordering::Relaxed);
        Ok(nt)
    }

    /// Quiescent end-state oracles (every worker has been joined).
    fn finish(rest: &mut Rest, board: &Arc<Board>, created: u32, ctx: &mut Ctx) -> Result<(), Violation> {
        let pools_gone = rest.main_pool.is_none() && rest.pools.is_empty();
        if pools_gone && !rest.left.is_empty() {
            ctx.probe("mt-every-pool-value-gone-while-handles-live");
        }
        let live: std::collections::BTreeSet<u32> = rest.left.iter().map(|h| h.obj).collect();
        for id in 0..created {
            let d = board.drops_of(id);
            if live.contains(&id) {
                check!(d == 0, "destroyed-before-last-handle-drop", "after join: object {id} destroyed {d}x while handles exist");
            } else {
                check!(d == 1, if d == 0 { "not-destroyed-at-last-handle-drop" } else { "double-drop" },
                    "after join: object {id} has no handle left, destructor ran {d}x");
            }
        }
        if let Some(p) = rest.main_pool.as_ref().or(rest.pools.first()) {
            let len = p.len();
            check!(len == live.len(), "len-mismatch", "after join (quiescent): len() = {len}, {} objects alive", live.len());
            ctx.event(simkit::mix(30, len as u64), || format!("after join: len {len}"));
        }
        // Storage must still serve every remaining handle, then each is dropped in turn.
        while let Some(held) = rest.left.pop() {
            let seen = held.h.read();
            if let Some(seen) = seen {
                let want = Seen { id: held.obj, ver: held.ver, pad_ok: true };
                if seen != want {
                    let obj = held.obj;
                    std::mem::forget(held);
                    return Err(Violation::new("canary-mismatch", format!("after join: object {obj} reads {seen:?}, expected {want:?}")));
                }
            }
            let obj = held.obj;
            let prev = board.refs[obj as usize].fetch_sub(1, Ordering::Relaxed);
            drop(held.h);
            let d = board.drops_of(obj);
            check!(
                d == u32::from(prev == 1),
                if d == 0 { "not-destroyed-at-last-handle-drop" } else { "destroyed-before-last-handle-drop" },
                "after join: dropped a handle of object {obj} ({} left), destructor ran {d}x",
                prev.wrapping_sub(1)
            );
            if let Some((class, detail)) = board.take_flag() {
                return Err(Violation::new(&class, detail));
            }
        }
        if let Some(p) = rest.main_pool.as_ref().or(rest.pools.first()) {
            let len = p.len();
            check!(len == 0 && p.is_empty(), "len-mismatch", "end state: len() = {len} with no object alive");
        }
        for id in 0..created {
            let d = board.drops_of(id);
            check!(d == 1, if d == 0 { "not-destroyed-at-last-handle-drop" } else { "double-drop" },
                "end state: object {id} destructor ran {d}x");
        }
        rest.pools.clear();
        rest.main_pool = None;
        if let Some((class, detail)) = board.take_flag() {
            return Err(Violation::new(&class, detail));
        }
        Ok(())
    }
}

fn gen_layout(rng: &mut Rng) -> u8 {
    // The large layout costs the interpreter the most harness time (canary loops); keep it rarer.
    rng.weighted(&[3, 3, 1]) as u8
}

fn gen_op(rng: &mut Rng, w: &[u32], threads: usize) -> MtOp {
    let slot = rng.below_usize(8);
    match rng.weighted(w) {
        0 => MtOp::Insert { layout: gen_layout(rng), with: rng.chance(1, 5) },
        1 => MtOp::Clone { slot },
        2 => MtOp::Drop { slot },
        3 => MtOp::Read { slot },
        4 => MtOp::Bump { slot },
        5 => MtOp::IntoShared { slot },
        6 => MtOp::IntoInner { slot },
        7 => MtOp::Erase { slot },
        8 => MtOp::CastDyn { slot },
        9 => MtOp::SendTo { slot, to: rng.below_usize(threads) },
        10 => MtOp::Recv,
        11 => MtOp::WithIter { rev: rng.bool() },
        12 => MtOp::Reserve { n: rng.range_usize(0, 4), layout: gen_layout(rng) },
        13 => MtOp::Shrink,
        14 => MtOp::Len,
        15 => MtOp::ClonePool,
        _ => MtOp::DropPool,
    }
}

impl MtScenario {
    /// Directed shape: every existing slab is exactly full, one thread keeps calling
    /// `shrink_to_fit` while the other inserts (which opens a new slab), reads the new object back
    /// and drops it. Whatever `shrink_to_fit` decides about "trailing empty slabs" must be decided
    /// and acted upon in one critical section with respect to that insert.
    fn gen_shrink_vs_insert(rng: &mut Rng) -> Self {
        let kind = *rng.pick(&[PoolKind::Opaque, PoolKind::Pinned, PoolKind::Blind]);
        let layout = rng.below(2) as u8;
        let cap = *rng.pick(&[1, 1, 2]);
        let n_pre = cap * rng.range_usize(1, 2);
        let pre = (0..n_pre).map(|_| Pre { layout, holders: vec![1], shared: false, main_keeps: false }).collect();
        let mut shrinker = Vec::new();
        for _ in 0..rng.range_usize(5, 9) {
            shrinker.push(MtOp::Shrink);
            if rng.chance(1, 4) {
                shrinker.push(MtOp::Len);
            }
        }
        let mut inserter = Vec::new();
        for _ in 0..rng.range_usize(3, 5) {
            inserter.push(MtOp::Insert { layout, with: rng.chance(1, 5) });
            inserter.push(MtOp::Read { slot: n_pre });
            inserter.push(MtOp::Drop { slot: n_pre });
        }
        // Thread 1 holds the pre-inserted objects and is the inserter.
        let scripts = vec![shrinker, inserter];
        Self { kind, layout, cap, pre, pool_for: vec![true, true], main_keeps_pool: rng.bool(), scripts, drop_at_end: vec![true, true] }
    }
}

impl Scenario for MtScenario {
    fn generate(rng: &mut Rng, _mode: &str) -> Self {
        if rng.chance(1, 5) {
            return Self::gen_shrink_vs_insert(rng);
        }
        let kind = *rng.pick(&[PoolKind::Opaque, PoolKind::Pinned, PoolKind::Blind]);
        let layout = rng.below(3) as u8;
        let cap = *rng.pick(&[1, 1, 1, 1, 2, 2, 3, 0]);
        let threads = *rng.pick(&[2, 2, 2, 3, 3, 4]);
        let n_pre = rng.range_usize(0, 4);
        let mut pre = Vec::new();
        for _ in 0..n_pre {
            let shared = rng.chance(3, 4);
            let holders = if shared {
                let mut v = rng.subset(threads, 2, 3);
                if v.is_empty() {
                    v.push(rng.below_usize(threads));
                }
                // Sometimes two clones to one thread.
                if rng.chance(1, 5) {
                    v.push(rng.below_usize(threads));
                }
                v
            } else {
                vec![rng.below_usize(threads)]
            };
            pre.push(Pre { layout: gen_layout(rng), holders, shared, main_keeps: shared && rng.chance(1, 4) });
        }
        // Swarm weights; insert / drop / clone always possible. Pool mutation (insert, drop of a
        // last handle, shrink, reserve) is what races inside the library, so it dominates.
        let mut w = [0_u32; 17];
        for x in &mut w {
            *x = *rng.pick(&[0, 0, 1, 1, 2]);
        }
        w[0] = *rng.pick(&[6, 9, 12]);
        w[2] = w[2].max(2) + *rng.pick(&[2, 4, 6]);
        w[1] = w[1].max(1);
        w[5] = w[5].max(1);
        w[16] = w[16].min(1);
        // Storm: every thread opens with a burst of inserts, so that the threads meet inside the
        // pool right after start-up.
        let storm = rng.chance(1, 2);
        let mut scripts = Vec::new();
        for _ in 0..threads {
            let n = rng.range_usize(3, 12);
            let burst = if storm { rng.range_usize(1, 3) } else { 0 };
            let mut script: Vec<MtOp> = (0..burst)
                .map(|_| MtOp::Insert { layout: gen_layout(rng), with: false })
                .collect();
            script.extend((0..n).map(|_| gen_op(rng, &w, threads)));
            scripts.push(script);
        }
        let pool_for = (0..threads).map(|_| rng.chance(5, 6)).collect();
        let drop_at_end = (0..threads).map(|_| rng.chance(3, 4)).collect();
        Self { kind, layout, cap, pre, pool_for, main_keeps_pool: rng.chance(3, 4), scripts, drop_at_end }
    }

    fn run(&self, ctx: &mut Ctx) -> Result<bool, Violation> {
        set_slab_capacity(self.cap);
        let r = self.run_inner(ctx);
        set_slab_capacity(0);
        r
    }

    fn shrink(&self) -> Vec<Self> {
        let mut out = Vec::new();
        // Fewer threads (the last script goes; holders are taken modulo the thread count).
        if self.scripts.len() > 2 {
            let mut c = self.clone();
            c.scripts.pop();
            out.push(c);
        }
        for (t, s) in self.scripts.iter().enumerate() {
            for ops in simkit::shrink::remove_chunks(s) {
                let mut c = self.clone();
                c.scripts[t] = ops;
                out.push(c);
            }
        }
        for i in 0..self.pre.len() {
            let mut c = self.clone();
            c.pre.remove(i);
            out.push(c);
        }
        for (i, p) in self.pre.iter().enumerate() {
            if p.holders.len() > 1 {
                let mut c = self.clone();
                c.pre[i].holders.pop();
                out.push(c);
            }
            if p.main_keeps {
                let mut c = self.clone();
                c.pre[i].main_keeps = false;
                out.push(c);
            }
        }
        out
    }

    fn size(&self) -> usize {
        self.scripts.len() * 100
            + self.scripts.iter().map(|s| s.len() * 4).sum::<usize>()
            + self.pre.iter().map(|p| 10 + p.holders.len() + usize::from(p.main_keeps)).sum::<usize>()
    }
}
