//! C10 — pinning takes effect in the OS; the library's view stays truthful.
//!
//! `PinScenario` (modes `sim-strict`, `sim-faulty`, `fake`): histories of pin / re-pin / query /
//! spawn operations over 1–4 simulated threads and 1–2 hardware instances. With the `sim` backend
//! every instance is the real Linux platform code (hook H3) over its own simulated machine and its
//! own simulated kernel; with the `fake` backend it is `many_cpus_impl::fake` hardware.
//! `RealScenario` (modes `real-kernel`, `real-kernel-enum`): the real kernel of this sandbox.

use std::collections::BTreeMap;
use std::sync::Arc;
use std::thread::ThreadId;

use many_cpus_impl::fake::{HardwareBuilder, ProcessorBuilder};
use many_cpus_impl::{EfficiencyClass, Processor, ProcessorSet, SystemHardware};
use nonempty::NonEmpty;
use serde::{Deserialize, Serialize};
use simkit::coord::{Coordinator, ExecError};
use simkit::{Ctx, Rng, Scenario, Violation, check};

use crate::kernel::SimKernel;
use crate::machine::{FaultPlan, SimFs, simple_machine};
use crate::util::{decode_mask, sorted_dedup};
use crate::{KEY_THREAD_PROCESSORS, avoid};

#[derive(Clone, Debug, Serialize, Deserialize, PartialEq)]
pub struct HwDesc {
    /// Kernel cpumask width in bytes (sim backend).
    pub width_bytes: usize,
    /// `sched_getcpu` migrates among the affinity (sim backend).
    pub migrate: bool,
    /// (processor id, memory region id).
    pub cpus: Vec<(u32, u32)>,
    /// Present but not in `Cpus_allowed_list` (sim backend): never reported, never pinnable.
    pub disallowed: Vec<u32>,
    /// Efficiency-class flags per processor (fake backend).
    pub efficiency: Vec<bool>,
}

#[derive(Clone, Copy, Debug, Serialize, Deserialize, PartialEq)]
pub enum Q {
    ProcPinned,
    RegionPinned,
    CurProc,
    CurRegion,
    ThreadProcs,
    Available,
}

#[derive(Clone, Debug, Serialize, Deserialize, PartialEq)]
pub enum Op {
    Pin { t: usize, h: usize, ids: Vec<u32>, via_filter: bool },
    Query { t: usize, h: usize, q: Q },
    SpawnThread { t: usize, h: usize, ids: Vec<u32> },
    SpawnThreads { t: usize, h: usize, ids: Vec<u32> },
    /// Fault: the kernel refuses this pin (`sched_setaffinity` fails). Whether the library panics
    /// or not, the thread's pin state and every later answer must be as if the call never happened.
    PinFails { t: usize, h: usize, ids: Vec<u32>, eperm: bool },
    /// Thread `t` creates `n` further (small, fake) hardware instances, pins itself through each,
    /// and drops them one by one in `drop_order`; after every drop the survivors must still say
    /// "pinned", and afterwards the scenario's own instances must answer as before (`h` is unused).
    TempInstances { t: usize, h: usize, n: u8, drop_order: Vec<u8> },
}

#[derive(Clone, Debug, Serialize, Deserialize)]
pub struct PinScenario {
    pub fake: bool,
    pub hws: Vec<HwDesc>,
    pub threads: usize,
    pub ops: Vec<Op>,
    pub sub_seed: u64,
    /// `thread_processors()` is compared with the pinned set itself (the documented contract)
    /// rather than with the library's (processor, region) tracking granularity.
    #[serde(default)]
    pub exact_thread_processors: bool,
}

// ------------------------------------------------------------------------------------------------
// Generation
// ------------------------------------------------------------------------------------------------

fn gen_hw(rng: &mut Rng, fake: bool, faulty: bool) -> HwDesc {
    let width_bytes = if faulty { *rng.pick(&[8_usize, 16, 128, 1024, 1024]) } else { *rng.pick(&[8_usize, 16, 128]) };
    let bits = if fake { 301 } else { (width_bytes * 8) as u32 };
    let n = rng.range(1, 24).min(u64::from(bits)) as usize;
    let mut ids: Vec<u32> = Vec::new();
    let words = bits.div_ceil(64);
    while ids.len() < n {
        let id = match rng.weighted(&[3, 4, 2, 2]) {
            0 => rng.below(u64::from(bits.min(12))) as u32,
            1 => {
                // around a 64-bit word boundary
                let w = rng.below(u64::from(words)) as u32;
                (w * 64 + *rng.pick(&[0_u32, 1, 62, 63])).min(bits - 1)
            }
            2 => bits - 1 - rng.below(u64::from(bits.min(3))) as u32,
            _ => rng.below(u64::from(bits)) as u32,
        };
        if !ids.contains(&id) {
            ids.push(id);
        }
    }
    if words >= 2 && rng.chance(1, 4) {
        // The highest processor id sits exactly on a 64-bit word boundary (an id space of 64k+1
        // processors): the last word of every mask then holds a single bit.
        let top = 64 * rng.range(1, u64::from(words) - 1) as u32;
        ids.retain(|i| *i < top);
        ids.push(top);
    }
    ids.sort_unstable();
    let n = ids.len();
    let n_regions = rng.range_usize(1, 4);
    let region_ids: Vec<u32> = if rng.chance(1, 3) {
        sorted_dedup((0..n_regions).map(|_| rng.below(7) as u32).collect())
    } else {
        (0..n_regions as u32).collect()
    };
    let blocks = rng.bool();
    let cpus: Vec<(u32, u32)> = ids
        .iter()
        .enumerate()
        .map(|(i, id)| {
            let r = if blocks { region_ids[i * region_ids.len() / n] } else { *rng.pick(&region_ids) };
            (*id, r)
        })
        .collect();
    let mut disallowed = Vec::new();
    if !fake && n >= 3 && rng.chance(1, 3) {
        for _ in 0..rng.range(1, 2) {
            disallowed.push(*rng.pick(&ids));
        }
        disallowed = sorted_dedup(disallowed);
    }
    let efficiency = ids.iter().map(|_| rng.chance(1, 3)).collect();
    HwDesc { width_bytes, migrate: faulty, cpus, disallowed, efficiency }
}

impl HwDesc {
    fn reported(&self) -> Vec<(u32, u32)> {
        self.cpus.iter().copied().filter(|(id, _)| !self.disallowed.contains(id)).collect()
    }
}

fn gen_set(rng: &mut Rng, hw: &HwDesc) -> Vec<u32> {
    let rep = hw.reported();
    let regions = sorted_dedup(rep.iter().map(|(_, r)| *r).collect());
    let mut ids: Vec<u32> = match rng.weighted(&[3, 3, 3, 1]) {
        0 => vec![rng.pick(&rep).0],
        1 => {
            let r = *rng.pick(&regions);
            let members: Vec<u32> = rep.iter().filter(|(_, x)| *x == r).map(|(i, _)| *i).collect();
            let mut v: Vec<u32> = members.iter().copied().filter(|_| rng.bool()).collect();
            if v.len() < 2 {
                v = members.into_iter().take(2).collect();
            }
            v
        }
        2 => {
            let mut v: Vec<u32> = rep.iter().map(|(i, _)| *i).filter(|_| rng.bool()).collect();
            // make it span two regions when the machine has two
            if regions.len() >= 2 {
                for r in regions.iter().take(2) {
                    if let Some((i, _)) = rep.iter().find(|(_, x)| x == r) {
                        v.push(*i);
                    }
                }
            }
            if v.is_empty() {
                v.push(rep[0].0);
            }
            sorted_dedup(v)
        }
        _ => rep.iter().map(|(i, _)| *i).collect(),
    };
    rng.shuffle(&mut ids);
    ids
}

impl Scenario for PinScenario {
    fn generate(rng: &mut Rng, mode: &str) -> Self {
        if mode == format!("known-{KEY_THREAD_PROCESSORS}") {
            // Directed: pin to two of the four processors of one region, ask which processors the
            // thread is pinned to; then pin across two regions and ask again.
            let hw = HwDesc {
                width_bytes: 128,
                migrate: false,
                cpus: vec![(0, 0), (1, 0), (2, 0), (3, 0), (4, 1), (5, 1)],
                disallowed: vec![],
                efficiency: vec![false; 6],
            };
            let multi = rng.bool();
            return Self {
                fake: rng.bool(),
                hws: vec![hw],
                threads: 1,
                ops: vec![
                    Op::Pin { t: 0, h: 0, ids: if multi { vec![1, 4] } else { vec![1, 2] }, via_filter: false },
                    Op::Query { t: 0, h: 0, q: Q::ThreadProcs },
                ],
                sub_seed: 1,
                exact_thread_processors: true,
            };
        }
        let (fake, faulty) = match mode {
            "sim-strict" => (false, false),
            "sim-faulty" => (false, true),
            "fake" => (true, false),
            other => panic!("harness-bug: unknown C10 mode {other}"),
        };
        let n_hw = rng.range_usize(1, 2);
        let hws: Vec<HwDesc> = (0..n_hw).map(|_| gen_hw(rng, fake, faulty)).collect();
        let threads = rng.range_usize(1, 4);
        let n_ops = rng.range_usize(1, 24);
        let mut ops = Vec::new();
        let mut last = (0_usize, 0_usize);
        for _ in 0..n_ops {
            let (t, h) = if rng.chance(1, 2) { last } else { (rng.below_usize(threads), rng.below_usize(n_hw)) };
            let op = match rng.weighted(&[35, 45, 10, 10, if faulty && !fake { 8 } else { 0 }, 4]) {
                0 => {
                    last = (t, h);
                    Op::Pin { t, h, ids: gen_set(rng, &hws[h]), via_filter: rng.chance(1, 3) }
                }
                1 => Op::Query {
                    t,
                    h,
                    q: *rng.pick(&[Q::ProcPinned, Q::RegionPinned, Q::CurProc, Q::CurRegion, Q::ThreadProcs, Q::Available]),
                },
                2 => Op::SpawnThread { t, h, ids: gen_set(rng, &hws[h]) },
                3 => Op::SpawnThreads { t, h, ids: gen_set(rng, &hws[h]) },
                4 => Op::PinFails { t, h, ids: gen_set(rng, &hws[h]), eperm: rng.bool() },
                _ => {
                    let n = rng.range(2, 4) as u8;
                    let mut order: Vec<u8> = (0..n).collect();
                    rng.shuffle(&mut order);
                    Op::TempInstances { t, h, n, drop_order: order }
                }
            };
            ops.push(op);
        }
        Self {
            fake,
            hws,
            threads,
            ops,
            sub_seed: rng.next_u64(),
            exact_thread_processors: !avoid(KEY_THREAD_PROCESSORS),
        }
    }

    fn run(&self, ctx: &mut Ctx) -> Result<bool, Violation> {
        Runner::new(self, ctx)?.run(self, ctx)
    }

    fn shrink(&self) -> Vec<Self> {
        let mut out = Vec::new();
        for ops in simkit::shrink::remove_chunks(&self.ops) {
            out.push(Self { ops, ..self.clone() });
        }
        if self.threads > 1 {
            out.push(Self { threads: self.threads - 1, ..self.clone() });
        }
        if self.hws.len() > 1 {
            let mut c = self.clone();
            c.hws.pop();
            out.push(c);
            let mut c = self.clone();
            c.hws.remove(0);
            for op in &mut c.ops {
                match op {
                    Op::Pin { h, .. } | Op::Query { h, .. } | Op::SpawnThread { h, .. } | Op::SpawnThreads { h, .. } | Op::PinFails { h, .. } | Op::TempInstances { h, .. } => {
                        *h = if *h == 0 { usize::MAX } else { *h - 1 };
                    }
                }
            }
            out.push(c);
        }
        for (i, op) in self.ops.iter().enumerate() {
            let ids = match op {
                Op::Pin { ids, .. } | Op::SpawnThread { ids, .. } | Op::SpawnThreads { ids, .. } | Op::PinFails { ids, .. } => ids,
                Op::Query { .. } | Op::TempInstances { .. } => continue,
            };
            if ids.len() > 1 {
                for smaller in simkit::shrink::remove_chunks(ids) {
                    if smaller.is_empty() {
                        continue;
                    }
                    let mut c = self.clone();
                    match &mut c.ops[i] {
                        Op::Pin { ids, .. } | Op::SpawnThread { ids, .. } | Op::SpawnThreads { ids, .. } | Op::PinFails { ids, .. } => *ids = smaller,
                        Op::Query { .. } | Op::TempInstances { .. } => {}
                    }
                    out.push(c);
                }
            }
            if let Op::SpawnThreads { t, h, ids } | Op::SpawnThread { t, h, ids } = op {
                let mut c = self.clone();
                c.ops[i] = Op::Pin { t: *t, h: *h, ids: ids.clone(), via_filter: false };
                if c.ops[i] != *op {
                    out.push(c);
                }
            }
        }
        for (k, hw) in self.hws.iter().enumerate() {
            for cpus in simkit::shrink::remove_chunks(&hw.cpus) {
                if cpus.is_empty() {
                    continue;
                }
                let mut c = self.clone();
                c.hws[k].cpus = cpus;
                let n_cpus = c.hws[k].cpus.len();
                c.hws[k].efficiency.truncate(n_cpus);
                out.push(c);
            }
            if !hw.disallowed.is_empty() {
                let mut c = self.clone();
                c.hws[k].disallowed.clear();
                out.push(c);
            }
            if hw.width_bytes != 128 || hw.migrate {
                let mut c = self.clone();
                if c.hws[k].cpus.iter().all(|(i, _)| *i < 1024) {
                    c.hws[k].width_bytes = 128;
                    c.hws[k].migrate = false;
                    out.push(c);
                }
            }
        }
        let size = self.size();
        out.retain(|c| c.size() < size);
        out
    }

    fn size(&self) -> usize {
        let ops: usize = self
            .ops
            .iter()
            .map(|o| match o {
                Op::Pin { ids, .. } => 4 + ids.len(),
                Op::Query { .. } => 3,
                Op::SpawnThread { ids, .. } => 6 + ids.len(),
                Op::SpawnThreads { ids, .. } => 6 + ids.len(),
                Op::PinFails { ids, .. } => 5 + ids.len(),
                Op::TempInstances { n, .. } => 4 + usize::from(*n),
            })
            .sum();
        let hws: usize = self
            .hws
            .iter()
            .map(|h| 5 + 2 * h.cpus.len() + h.disallowed.len() + usize::from(h.width_bytes != 128) + usize::from(h.migrate))
            .sum();
        ops + hws + self.threads
    }
}

// ------------------------------------------------------------------------------------------------
// Execution
// ------------------------------------------------------------------------------------------------

#[derive(Clone)]
struct HwUnder {
    hw: SystemHardware,
    kernel: Option<Arc<SimKernel>>,
    procs: BTreeMap<u32, Processor>,
    region_of: BTreeMap<u32, u32>,
    reported: Vec<u32>,
    default_affinity: Vec<u32>,
}

#[derive(Clone, Debug, PartialEq)]
enum QVal {
    Bool(bool),
    Id(u32),
    Ids(Option<Vec<u32>>),
}

#[derive(Clone, Debug)]
struct QResult {
    val: QVal,
    /// What `sched_getcpu` answered during the query, if the kernel was asked.
    kernel_said: Option<u32>,
    /// `sched_getaffinity` attempts made during the query: (offered bytes, accepted).
    get_calls: Vec<(usize, bool)>,
}

fn set_ids(set: &ProcessorSet) -> Vec<u32> {
    sorted_dedup(set.iter().map(Processor::id).collect())
}

/// Runs one query on the calling thread.
fn query(u: &HwUnder, q: Q) -> QResult {
    let tid = std::thread::current().id();
    let before = u.kernel.as_ref().map(|k| k.rec(tid));
    let val = match q {
        Q::ProcPinned => QVal::Bool(u.hw.is_thread_processor_pinned()),
        Q::RegionPinned => QVal::Bool(u.hw.is_thread_memory_region_pinned()),
        Q::CurProc => QVal::Id(u.hw.current_processor_id()),
        Q::CurRegion => QVal::Id(u.hw.current_memory_region_id()),
        Q::ThreadProcs => QVal::Ids(u.hw.thread_processors().map(|s| set_ids(&s))),
        Q::Available => QVal::Ids(
            u.hw.all_processors()
                .to_builder()
                .where_available_for_current_thread()
                .take_all()
                .map(|s| set_ids(&s)),
        ),
    };
    let (kernel_said, get_calls) = match (&u.kernel, before) {
        (Some(k), Some(b)) => {
            let a = k.rec(tid);
            (
                if a.getcpu_calls > b.getcpu_calls { a.last_getcpu } else { None },
                a.get_calls[b.get_calls.len()..].to_vec(),
            )
        }
        _ => (None, Vec::new()),
    };
    QResult { val, kernel_said, get_calls }
}

/// Everything a library-spawned thread observes about itself.
#[derive(Clone, Debug)]
struct SpawnObs {
    tid: ThreadId,
    got: Vec<u32>,
    proc_pinned: QResult,
    region_pinned: QResult,
    cur_proc: QResult,
    cur_region: QResult,
    thread_procs: QResult,
    available: QResult,
}

fn observe(u: &HwUnder, got: Vec<u32>) -> SpawnObs {
    SpawnObs {
        tid: std::thread::current().id(),
        got,
        proc_pinned: query(u, Q::ProcPinned),
        region_pinned: query(u, Q::RegionPinned),
        cur_proc: query(u, Q::CurProc),
        cur_region: query(u, Q::CurRegion),
        thread_procs: query(u, Q::ThreadProcs),
        available: query(u, Q::Available),
    }
}

fn flags_of(hws: &[HwUnder]) -> Vec<(bool, bool)> {
    hws.iter().map(|u| (u.hw.is_thread_processor_pinned(), u.hw.is_thread_memory_region_pinned())).collect()
}

fn build_set(u: &HwUnder, ids: &[u32], via_filter: bool) -> ProcessorSet {
    if via_filter {
        let ids = ids.to_vec();
        u.hw.all_processors().filter(|p| ids.contains(&p.id())).expect("harness-bug: ids are reported processors")
    } else {
        let procs: Vec<Processor> = ids.iter().map(|i| u.procs[i].clone()).collect();
        u.hw.all_processors()
            .to_builder()
            .take_exact(NonEmpty::from_vec(procs).expect("harness-bug: ids non-empty"))
    }
}

struct Runner {
    hws: Vec<HwUnder>,
    coord: Coordinator,
    tids: Vec<ThreadId>,
    /// Reference model: last set pinned on thread `t` through instance `h`.
    pins: Vec<Vec<Option<Vec<u32>>>>,
    fake: bool,
    exact_thread_processors: bool,
}

fn exec<R: Send + 'static>(coord: &Coordinator, t: usize, f: impl FnOnce() -> R + Send + 'static) -> Result<R, Violation> {
    match coord.exec(t, f) {
        Ok(r) => Ok(r),
        // Let an unexpected library panic surface as simkit's `panic: …` class.
        Err(ExecError::Panicked(msg)) => panic!("{msg}"),
        Err(ExecError::Blocked) => Err(Violation::new("hang", format!("operation on simulated thread {t} did not return"))),
        Err(ExecError::Dead) => Err(Violation::new("harness-thread-dead", format!("simulated thread {t} is gone"))),
    }
}

impl Runner {
    fn new(s: &PinScenario, ctx: &mut Ctx) -> Result<Self, Violation> {
        let mut hws = Vec::new();
        for (k, d) in s.hws.iter().enumerate() {
            let want = d.reported();
            let (hw, kernel, default_affinity) = if s.fake {
                let mut b = HardwareBuilder::new();
                for (i, (id, region)) in d.cpus.iter().enumerate() {
                    let class = if d.efficiency.get(i).copied().unwrap_or(false) {
                        EfficiencyClass::Efficiency
                    } else {
                        EfficiencyClass::Performance
                    };
                    if !d.disallowed.contains(id) {
                        b = b.processor(ProcessorBuilder::new().id(*id).memory_region(*region).efficiency_class(class));
                    }
                }
                (SystemHardware::fake(b), None, want.iter().map(|(i, _)| *i).collect::<Vec<u32>>())
            } else {
                let bits = (d.width_bytes * 8) as u32;
                let allowed: Vec<u32> = want.iter().map(|(i, _)| *i).collect();
                let machine = simple_machine(bits, &d.cpus, &allowed, simkit::mix(s.sub_seed, k as u64) | 1);
                let fs = Arc::new(SimFs::new(machine, FaultPlan::default(), false));
                let kernel = Arc::new(SimKernel::new(
                    d.width_bytes,
                    allowed.clone(),
                    d.migrate,
                    simkit::mix(s.sub_seed, 0x6b65_726e + k as u64),
                ));
                (SystemHardware::verif_linux(fs, kernel.clone()), Some(kernel), allowed)
            };
            let all = hw.all_processors();
            let mut got: Vec<(u32, u32)> = all.iter().map(|p| (p.id(), p.memory_region_id())).collect();
            got.sort_unstable();
            check!(
                got == want,
                "inventory-mismatch",
                "instance {k}: the library reports {got:?}, the machine has {want:?}"
            );
            hws.push(HwUnder {
                procs: all.iter().map(|p| (p.id(), p.clone())).collect(),
                region_of: want.iter().copied().collect(),
                reported: want.iter().map(|(i, _)| *i).collect(),
                hw,
                kernel,
                default_affinity,
            });
            ctx.event_str(&format!(
                "instance {k}: {} reported {:?} width {} B migrate {}",
                if s.fake { "fake" } else { "sim" },
                want,
                d.width_bytes,
                d.migrate
            ));
        }
        let coord = Coordinator::new(s.threads);
        let mut tids = Vec::new();
        for t in 0..s.threads {
            let tid = exec(&coord, t, || std::thread::current().id())?;
            for u in &hws {
                if let Some(k) = &u.kernel {
                    k.register(tid, t as u64 + 1);
                }
            }
            tids.push(tid);
        }
        Ok(Self {
            pins: vec![vec![None; hws.len()]; s.threads],
            hws,
            coord,
            tids,
            fake: s.fake,
            exact_thread_processors: s.exact_thread_processors,
        })
    }

    fn uniform_region(&self, h: usize, ids: &[u32]) -> Option<u32> {
        let u = &self.hws[h];
        let first = u.region_of[&ids[0]];
        ids.iter().all(|i| u.region_of[i] == first).then_some(first)
    }

    /// The kernel affinity the model expects for thread `t` on instance `h`.
    fn model_affinity(&self, t: usize, h: usize) -> Vec<u32> {
        match &self.pins[t][h] {
            Some(s) => sorted_dedup(s.clone()),
            None => self.hws[h].default_affinity.clone(),
        }
    }

    /// What `thread_processors()` must answer for a thread whose last pin through this instance
    /// was `pin`.
    fn want_thread_procs(&self, h: usize, pin: Option<&Vec<u32>>) -> Option<Vec<u32>> {
        let pin = pin?;
        if self.exact_thread_processors {
            // The documented contract: "the set of processors that the current thread is pinned to".
            return Some(sorted_dedup(pin.clone()));
        }
        // Known finding (while avoided): the library tracks only (processor, region), so it
        // answers with the whole region for a one-region pin and with None for a multi-region pin.
        if pin.len() == 1 {
            return Some(pin.clone());
        }
        let r = self.uniform_region(h, pin)?;
        Some(self.hws[h].reported.iter().copied().filter(|i| self.hws[h].region_of[i] == r).collect())
    }

    /// Checks one query answer against the model. `pin` is the model's last pin of the asking
    /// thread on instance `h`, `affinity` its expected kernel affinity.
    fn check_answer(
        &self,
        ctx: &mut Ctx,
        what: &str,
        h: usize,
        q: Q,
        r: &QResult,
        pin: Option<&Vec<u32>>,
        affinity: &[u32],
    ) -> Result<(), Violation> {
        let u = &self.hws[h];
        match q {
            Q::ProcPinned => {
                let want = pin.is_some_and(|p| p.len() == 1);
                check!(
                    r.val == QVal::Bool(want),
                    "pin-state-wrong",
                    "{what}: is_thread_processor_pinned = {:?}, last pin on this thread and instance is {pin:?}",
                    r.val
                );
            }
            Q::RegionPinned => {
                let want = pin.is_some_and(|p| self.uniform_region(h, p).is_some());
                check!(
                    r.val == QVal::Bool(want),
                    "pin-state-wrong",
                    "{what}: is_thread_memory_region_pinned = {:?}, last pin {pin:?} (regions {:?})",
                    r.val,
                    u.region_of
                );
            }
            Q::CurProc => {
                let QVal::Id(got) = r.val else { panic!("harness-bug: CurProc value") };
                if let Some(p) = pin.filter(|p| p.len() == 1) {
                    check!(got == p[0], "current-processor-wrong", "{what}: current_processor_id = {got}, thread is pinned to {p:?}");
                } else if self.fake {
                    check!(
                        affinity.contains(&got),
                        "current-processor-wrong",
                        "{what}: current_processor_id = {got}, the thread may only run on {affinity:?}"
                    );
                } else {
                    match r.kernel_said {
                        Some(k) => {
                            check!(got == k, "current-processor-wrong", "{what}: current_processor_id = {got}, sched_getcpu said {k}");
                            if affinity.len() > 1 && k != affinity[0] {
                                ctx.probe("migration-observed");
                                ctx.fault("migration");
                            }
                        }
                        None => {
                            return Err(Violation::new(
                                "answer-not-from-kernel",
                                format!("{what}: current_processor_id = {got} without asking the kernel, but the last pin on this thread and instance is {pin:?}"),
                            ));
                        }
                    }
                }
            }
            Q::CurRegion => {
                let QVal::Id(got) = r.val else { panic!("harness-bug: CurRegion value") };
                if let Some(reg) = pin.and_then(|p| self.uniform_region(h, p)) {
                    check!(got == reg, "current-region-wrong", "{what}: current_memory_region_id = {got}, thread is pinned inside region {reg}");
                } else if self.fake {
                    let regions: Vec<u32> = affinity.iter().map(|i| u.region_of[i]).collect();
                    check!(
                        regions.contains(&got),
                        "current-region-wrong",
                        "{what}: current_memory_region_id = {got}, the thread's processors are in regions {regions:?}"
                    );
                } else {
                    match r.kernel_said {
                        Some(k) => {
                            let reg = u.region_of.get(&k).copied();
                            check!(
                                Some(got) == reg,
                                "current-region-wrong",
                                "{what}: current_memory_region_id = {got}, sched_getcpu said processor {k} which is in region {reg:?}"
                            );
                        }
                        None => {
                            return Err(Violation::new(
                                "answer-not-from-kernel",
                                format!("{what}: current_memory_region_id = {got} without asking the kernel, but the last pin on this thread and instance is {pin:?}"),
                            ));
                        }
                    }
                }
            }
            Q::ThreadProcs => {
                let want = self.want_thread_procs(h, pin);
                check!(
                    r.val == QVal::Ids(want.clone()),
                    "thread-processors-not-last-pin",
                    "{what}: thread_processors() = {:?}, last pin on this thread and instance is {pin:?} (expected {want:?})",
                    r.val
                );
            }
            Q::Available => {
                let want: Vec<u32> = affinity.iter().copied().filter(|i| u.reported.contains(i)).collect();
                check!(
                    r.val == QVal::Ids(Some(want.clone())),
                    "available-not-affinity",
                    "{what}: processors available to the thread = {:?}, its affinity is {want:?}",
                    r.val
                );
                if let Some(k) = &u.kernel {
                    check!(
                        r.get_calls.last().is_some_and(|(_, ok)| *ok),
                        "affinity-not-read",
                        "{what}: no accepted sched_getaffinity call: {:?}",
                        r.get_calls
                    );
                    for (len, ok) in &r.get_calls {
                        check!(
                            *ok == (*len >= k.width_bytes) && len % 8 == 0,
                            "harness-bug-kernel",
                            "kernel verdict inconsistent: {:?}",
                            r.get_calls
                        );
                    }
                    let rejected = r.get_calls.iter().filter(|(_, ok)| !ok).count();
                    if rejected > 0 {
                        ctx.probe("einval-retry");
                        for _ in 0..rejected {
                            ctx.fault("einval_until_wide_enough");
                        }
                    } else if k.width_bytes > 128 {
                        ctx.probe("accepted-width-remembered");
                    }
                    if k.width_bytes < 128 {
                        ctx.probe("kernel-mask-narrower-than-buffer");
                    }
                }
            }
        }
        Ok(())
    }

    /// After every operation: no thread's view and no instance's view changed except as modelled.
    /// `own` carries the flags the operation's own thread collected at the end of the operation
    /// (same hand-over); the other threads are visited only after state-changing operations.
    fn sweep(&self, what: &str, own: Option<(usize, &[(bool, bool)])>, visit_others: bool) -> Result<(), Violation> {
        for t in 0..self.tids.len() {
            let flags: Vec<(bool, bool)> = match own {
                Some((ot, f)) if ot == t => f.to_vec(),
                _ if !visit_others => continue,
                _ => {
                    let hws = self.hws.clone();
                    exec(&self.coord, t, move || flags_of(&hws))?
                }
            };
            for (h, (pp, rp)) in flags.iter().enumerate() {
                let pin = self.pins[t][h].as_ref();
                let want_pp = pin.is_some_and(|p| p.len() == 1);
                let want_rp = pin.is_some_and(|p| self.uniform_region(h, p).is_some());
                check!(
                    (*pp, *rp) == (want_pp, want_rp),
                    "pin-state-leak",
                    "after {what}: thread {t} on instance {h} says processor-pinned={pp} region-pinned={rp}, \
                     its last pin there is {pin:?} (expected {want_pp}/{want_rp})"
                );
            }
        }
        // The kernel's table is readable without visiting the threads.
        for t in 0..self.tids.len() {
            for h in 0..self.hws.len() {
                if let Some(k) = &self.hws[h].kernel {
                    let got = k.affinity_of(self.tids[t]);
                    let want = self.model_affinity(t, h);
                    check!(
                        got == want,
                        "affinity-leak",
                        "after {what}: kernel affinity of thread {t} on instance {h} is {got:?}, expected {want:?}"
                    );
                }
            }
        }
        Ok(())
    }

    /// The mask bytes the kernel stub received from `tid` since `before` decode to exactly `ids`.
    fn check_mask(&self, what: &str, h: usize, tid: ThreadId, before: usize, ids: &[u32], ctx: &mut Ctx) -> Result<(), Violation> {
        let Some(k) = &self.hws[h].kernel else { return Ok(()) };
        let rec = k.rec(tid);
        let new = &rec.set_calls[before.min(rec.set_calls.len())..];
        check!(
            new.len() == 1,
            "setaffinity-call-count",
            "{what}: expected exactly one sched_setaffinity call, saw {new:?}"
        );
        let (len, decoded) = &new[0];
        let want = sorted_dedup(ids.to_vec());
        check!(
            *decoded == want,
            "mask-not-the-set",
            "{what}: the {len} mask bytes handed to the kernel decode to {decoded:?}, the set is {want:?}"
        );
        check!(
            len % size_of::<libc::c_ulong>() == 0 && *len > 0,
            "mask-length-not-whole-words",
            "{what}: declared mask length {len} bytes"
        );
        check!(
            rec.affinity.as_ref() == Some(&want),
            "affinity-not-the-set",
            "{what}: kernel affinity is {:?} after pinning to {want:?}",
            rec.affinity
        );
        if *len > 128 {
            ctx.probe("mask-wider-than-cpu_set_t");
        }
        if want.iter().any(|i| *i >= 64) {
            ctx.probe("id>=64");
        }
        if want.iter().any(|i| *i >= 1024) {
            ctx.probe("id>=1024");
        }
        Ok(())
    }

    fn check_spawned(&self, ctx: &mut Ctx, what: &str, h: usize, o: &SpawnObs, pin: &[u32]) -> Result<(), Violation> {
        check!(
            !self.tids.contains(&o.tid),
            "spawn-ran-on-caller",
            "{what}: the entry point ran on one of the simulated threads"
        );
        self.check_mask(what, h, o.tid, 0, pin, ctx)?;
        let pin_v = pin.to_vec();
        let aff = sorted_dedup(pin.to_vec());
        for (q, r) in [
            (Q::ProcPinned, &o.proc_pinned),
            (Q::RegionPinned, &o.region_pinned),
            (Q::CurProc, &o.cur_proc),
            (Q::CurRegion, &o.cur_region),
            (Q::ThreadProcs, &o.thread_procs),
            (Q::Available, &o.available),
        ] {
            self.check_answer(ctx, &format!("{what}, spawned thread, {q:?}"), h, q, r, Some(&pin_v), &aff)?;
        }
        Ok(())
    }

    fn run(mut self, s: &PinScenario, ctx: &mut Ctx) -> Result<bool, Violation> {
        let mut nontrivial = false;
        for (i, op) in s.ops.iter().enumerate() {
            let (t, h) = match op {
                Op::Pin { t, h, .. } | Op::Query { t, h, .. } | Op::SpawnThread { t, h, .. } | Op::SpawnThreads { t, h, .. } | Op::PinFails { t, h, .. } | Op::TempInstances { t, h, .. } => (*t, *h),
            };
            if t >= self.tids.len() || h >= self.hws.len() {
                continue; // dangling after shrinking
            }
            let u = self.hws[h].clone();
            let valid = |ids: &Vec<u32>| -> Vec<u32> {
                let mut seen = Vec::new();
                for id in ids {
                    if u.reported.contains(id) && !seen.contains(id) {
                        seen.push(*id);
                    }
                }
                seen
            };
            match op {
                Op::Pin { ids, via_filter, .. } => {
                    let ids = valid(ids);
                    if ids.is_empty() {
                        continue;
                    }
                    let what = format!("op {i}: thread {t} pins to {ids:?} on instance {h}");
                    let before = u.kernel.as_ref().map_or(0, |k| k.rec(self.tids[t]).set_calls.len());
                    let (u2, ids2, vf) = (u.clone(), ids.clone(), *via_filter);
                    let all = self.hws.clone();
                    let own = exec(&self.coord, t, move || {
                        build_set(&u2, &ids2, vf).pin_current_thread_to();
                        flags_of(&all)
                    })?;
                    if self.pins[t][h].is_some() {
                        ctx.probe("re-pin");
                        nontrivial = true;
                        if self.pins[t][h].as_ref().is_some_and(|p| p.len() == 1) && self.uniform_region(h, &ids).is_none() {
                            ctx.probe("re-pin-singleton-to-multi-region");
                        }
                    }
                    self.pins[t][h] = Some(ids.clone());
                    ctx.event_str(&what);
                    self.check_mask(&what, h, self.tids[t], before, &ids, ctx)?;
                    nontrivial |= ids.len() >= 2 || ids.iter().any(|x| *x >= 64);
                    self.probe_set(ctx, h, &ids);
                    self.sweep(&what, Some((t, &own)), true)?;
                }
                Op::TempInstances { n, drop_order, .. } => {
                    let n = usize::from(*n).clamp(2, 4);
                    let order: Vec<usize> = drop_order.iter().map(|d| usize::from(*d) % n).collect();
                    let what = format!("op {i}: thread {t} creates {n} more instances, pins through each, drops them in order {order:?}");
                    let all = self.hws.clone();
                    let (bad, own) = exec(&self.coord, t, move || {
                        let mut temps: Vec<Option<SystemHardware>> = (0..n)
                            .map(|_| {
                                let b = HardwareBuilder::new()
                                    .processor(ProcessorBuilder::new().id(0).memory_region(0).efficiency_class(EfficiencyClass::Performance))
                                    .processor(ProcessorBuilder::new().id(1).memory_region(0).efficiency_class(EfficiencyClass::Performance));
                                Some(SystemHardware::fake(b))
                            })
                            .collect();
                        for hw in temps.iter().flatten() {
                            hw.all_processors().filter(|p| p.id() == 0).expect("processor 0 exists").pin_current_thread_to();
                        }
                        let mut bad: Vec<(usize, usize, bool, bool)> = Vec::new();
                        for d in order {
                            if let Some(hw) = temps[d].take() {
                                drop(hw);
                                for (k, s) in temps.iter().enumerate() {
                                    if let Some(s) = s {
                                        let (pp, rp) = (s.is_thread_processor_pinned(), s.is_thread_memory_region_pinned());
                                        if !pp || !rp {
                                            bad.push((d, k, pp, rp));
                                        }
                                    }
                                }
                            }
                        }
                        drop(temps);
                        (bad, flags_of(&all))
                    })?;
                    ctx.event_str(&what);
                    ctx.probe("further-instances-created-and-dropped-on-a-pinned-thread");
                    check!(
                        bad.is_empty(),
                        "pin-state-wrong",
                        "{what}: after dropping instance #d, surviving instance #k (pinned to its processor 0 on this thread) said                          processor-pinned/region-pinned = (d, k, pp, rp): {bad:?}"
                    );
                    nontrivial = true;
                    self.sweep(&what, Some((t, &own)), false)?;
                }
                Op::PinFails { ids, eperm, .. } => {
                    let ids = valid(ids);
                    let Some(kernel) = u.kernel.clone() else { continue };
                    if ids.is_empty() {
                        continue;
                    }
                    let errno = if *eperm { libc::EPERM } else { libc::EINVAL };
                    let what = format!("op {i}: thread {t} pins to {ids:?} on instance {h}, sched_setaffinity fails with errno {errno}");
                    kernel.fail_next_setaffinity(self.tids[t], errno);
                    let affinity_before = kernel.affinity_of(self.tids[t]);
                    let (u2, ids2) = (u.clone(), ids.clone());
                    let all = self.hws.clone();
                    let (panicked, own) = exec(&self.coord, t, move || {
                        let r = std::panic::catch_unwind(std::panic::AssertUnwindSafe(|| {
                            build_set(&u2, &ids2, false).pin_current_thread_to();
                        }));
                        (r.is_err(), flags_of(&all))
                    })?;
                    ctx.fault("setaffinity-fails");
                    ctx.probe(if panicked { "failed-pin-panicked" } else { "failed-pin-returned" });
                    ctx.event_str(&format!("{what} -> {}", if panicked { "panicked" } else { "returned" }));
                    // The refused call changed nothing in the kernel ...
                    check!(
                        kernel.affinity_of(self.tids[t]) == affinity_before,
                        "failed-pin-changed-affinity",
                        "{what}: the kernel affinity changed although the call was refused"
                    );
                    // ... so the library's view of this thread (and of every other) must be what it
                    // was: the model's last successful pin stays, and the sweep compares every flag.
                    nontrivial = true;
                    self.sweep(&what, Some((t, &own)), false)?;
                }
                Op::Query { q, .. } => {
                    let u2 = u.clone();
                    let q = *q;
                    let all = self.hws.clone();
                    let (r, own) = exec(&self.coord, t, move || {
                        let r = query(&u2, q);
                        (r, flags_of(&all))
                    })?;
                    let what = format!("op {i}: thread {t} asks {q:?} on instance {h}");
                    // The fake platform draws the current processor from the library's own
                    // entropy: log only what is determined.
                    if self.fake && matches!(q, Q::CurProc | Q::CurRegion) && !matches!(&self.pins[t][h], Some(p) if p.len() == 1) {
                        ctx.event_str(&format!("{what} -> (library entropy)"));
                    } else {
                        ctx.event_str(&format!("{what} -> {:?} kernel_said={:?} getaffinity={:?}", r.val, r.kernel_said, r.get_calls));
                    }
                    let pin = self.pins[t][h].clone();
                    let aff = self.model_affinity(t, h);
                    self.check_answer(ctx, &what, h, q, &r, pin.as_ref(), &aff)?;
                    if pin.is_none() {
                        ctx.probe("query-on-never-pinned-thread");
                    }
                    if self.pins[t].iter().enumerate().any(|(h2, p)| h2 != h && p.is_some()) && pin.is_none() {
                        ctx.probe("query-on-other-instance-than-pinned");
                    }
                    self.sweep(&what, Some((t, &own)), false)?;
                }
                Op::SpawnThread { ids, .. } => {
                    let ids = valid(ids);
                    if ids.is_empty() {
                        continue;
                    }
                    let what = format!("op {i}: thread {t} spawn_thread({ids:?}) on instance {h}");
                    let (u2, ids2) = (u.clone(), ids.clone());
                    let all = self.hws.clone();
                    let (obs, own) = exec(&self.coord, t, move || {
                        let set = build_set(&u2, &ids2, false);
                        let u3 = u2.clone();
                        let r = set.spawn_thread(move |got| observe(&u3, set_ids(&got))).join();
                        (r, flags_of(&all))
                    })?;
                    let obs = match obs {
                        Ok(o) => o,
                        Err(p) => panic!("{}", simkit::panic_message(&p)),
                    };
                    ctx.event_str(&format!(
                        "{what} -> got {:?} pinned {:?}/{:?} cur {:?} thread_procs {:?} available {:?}",
                        obs.got,
                        obs.proc_pinned.val,
                        obs.region_pinned.val,
                        if self.fake && ids.len() > 1 { QVal::Bool(true) } else { obs.cur_proc.val.clone() },
                        obs.thread_procs.val,
                        obs.available.val
                    ));
                    check!(
                        obs.got == sorted_dedup(ids.clone()),
                        "spawn-thread-wrong-set",
                        "{what}: the entry point received {:?}",
                        obs.got
                    );
                    self.check_spawned(ctx, &what, h, &obs, &ids)?;
                    ctx.probe("spawn_thread");
                    nontrivial |= ids.len() >= 2 || ids.iter().any(|x| *x >= 64);
                    self.sweep(&what, Some((t, &own)), true)?;
                }
                Op::SpawnThreads { ids, .. } => {
                    let ids = valid(ids);
                    if ids.is_empty() {
                        continue;
                    }
                    let what = format!("op {i}: thread {t} spawn_threads({ids:?}) on instance {h}");
                    let (u2, ids2) = (u.clone(), ids.clone());
                    let all = self.hws.clone();
                    let (results, own) = exec(&self.coord, t, move || {
                        let set = build_set(&u2, &ids2, false);
                        let u3 = u2.clone();
                        let handles = set.spawn_threads(move |p: Processor| observe(&u3, vec![p.id()]));
                        let r = handles.into_vec().into_iter().map(std::thread::JoinHandle::join).collect::<Vec<_>>();
                        (r, flags_of(&all))
                    })?;
                    let mut obs: Vec<SpawnObs> = Vec::new();
                    for r in results {
                        match r {
                            Ok(o) => obs.push(o),
                            Err(p) => panic!("{}", simkit::panic_message(&p)),
                        }
                    }
                    obs.sort_by_key(|o| o.got.clone());
                    let entries: Vec<u32> = obs.iter().map(|o| o.got[0]).collect();
                    ctx.event_str(&format!("{what} -> entries {entries:?}"));
                    check!(
                        entries == sorted_dedup(ids.clone()),
                        "spawn-threads-wrong-entries",
                        "{what}: entry points ran for {entries:?} (one per processor expected)"
                    );
                    let mut tids: Vec<ThreadId> = Vec::new();
                    for o in &obs {
                        check!(!tids.contains(&o.tid), "spawn-threads-shared-thread", "{what}: two entry points shared a thread");
                        tids.push(o.tid);
                        let p = o.got[0];
                        self.check_spawned(ctx, &format!("{what}, entry for processor {p}"), h, o, &[p])?;
                        check!(
                            o.cur_proc.val == QVal::Id(p),
                            "spawn-threads-not-on-processor",
                            "{what}: the thread for processor {p} sees itself on {:?}",
                            o.cur_proc.val
                        );
                    }
                    ctx.probe("spawn_threads");
                    nontrivial |= ids.len() >= 2 || ids.iter().any(|x| *x >= 64);
                    self.sweep(&what, Some((t, &own)), true)?;
                }
            }
        }
        self.coord.shutdown();
        Ok(nontrivial)
    }

    fn probe_set(&self, ctx: &mut Ctx, h: usize, ids: &[u32]) {
        if ids.len() == 1 {
            ctx.probe("pin-singleton");
        } else if self.uniform_region(h, ids).is_some() {
            ctx.probe("pin-one-region");
        } else {
            ctx.probe("pin-multi-region");
        }
        if self.hws.len() > 1 {
            ctx.probe("two-instances");
        }
    }
}

// ------------------------------------------------------------------------------------------------
// The real kernel
// ------------------------------------------------------------------------------------------------

#[derive(Clone, Debug, Serialize, Deserialize)]
pub struct RealScenario {
    /// Successive pins of one fresh thread; bit `i` selects the `i`-th processor allowed to this
    /// process (ascending id).
    pub pins: Vec<u32>,
    /// 0: `std::thread::spawn` + `pin_current_thread_to`; 1: `spawn_thread`; 2: `spawn_threads`.
    pub via: u8,
}

/// Size of the buffer for direct `sched_getaffinity` calls (8192 processors).
const RAW_MASK_BYTES: usize = 1024;

fn raw_affinity() -> Vec<u32> {
    let mut buf = [0_u8; RAW_MASK_BYTES];
    // SAFETY: the buffer is valid for RAW_MASK_BYTES bytes and suitably aligned for the kernel's
    // byte-wise copy; 0 = calling thread.
    let rc = unsafe { libc::sched_getaffinity(0, RAW_MASK_BYTES, buf.as_mut_ptr().cast::<libc::cpu_set_t>()) };
    assert!(rc == 0, "harness-bug: sched_getaffinity failed: {}", std::io::Error::last_os_error());
    decode_mask(&buf)
}

fn raw_getcpu() -> u32 {
    // SAFETY: no requirements.
    let c = unsafe { libc::sched_getcpu() };
    assert!(c >= 0, "harness-bug: sched_getcpu failed");
    c as u32
}

#[derive(Clone, Debug)]
struct RealObs {
    set: Vec<u32>,
    kernel_affinity: Vec<u32>,
    kernel_cpu: u32,
    proc_pinned: bool,
    region_pinned: bool,
    cur_proc: u32,
    cur_region: u32,
    available: Vec<u32>,
    regions: Vec<u32>,
}

fn real_observe(hw: &SystemHardware, set: &ProcessorSet) -> RealObs {
    RealObs {
        set: set_ids(set),
        kernel_affinity: raw_affinity(),
        kernel_cpu: raw_getcpu(),
        proc_pinned: hw.is_thread_processor_pinned(),
        region_pinned: hw.is_thread_memory_region_pinned(),
        cur_proc: hw.current_processor_id(),
        cur_region: hw.current_memory_region_id(),
        available: hw
            .all_processors()
            .to_builder()
            .where_available_for_current_thread()
            .take_all()
            .map(|s| set_ids(&s))
            .unwrap_or_default(),
        regions: sorted_dedup(set.iter().map(Processor::memory_region_id).collect()),
    }
}

impl RealScenario {
    fn subset(universe: &[u32], bits: u32) -> Vec<u32> {
        let v: Vec<u32> = universe.iter().enumerate().filter(|(i, _)| *i < 32 && bits & (1 << i) != 0).map(|(_, c)| *c).collect();
        if v.is_empty() { vec![universe[0]] } else { v }
    }

    fn check_obs(what: &str, o: &RealObs, want: &[u32], region_of: &BTreeMap<u32, u32>) -> Result<(), Violation> {
        check!(o.set == want, "harness-bug-set", "{what}: built set {:?}, wanted {want:?}", o.set);
        check!(
            o.kernel_affinity == want,
            "os-affinity-not-the-set",
            "{what}: sched_getaffinity reads {:?} after pinning to {want:?}",
            o.kernel_affinity
        );
        check!(
            want.contains(&o.kernel_cpu),
            "running-outside-the-set",
            "{what}: sched_getcpu = {} after pinning to {want:?}",
            o.kernel_cpu
        );
        check!(
            o.proc_pinned == (want.len() == 1),
            "pin-state-wrong",
            "{what}: is_thread_processor_pinned = {} for {want:?}",
            o.proc_pinned
        );
        check!(
            o.region_pinned == (o.regions.len() == 1),
            "pin-state-wrong",
            "{what}: is_thread_memory_region_pinned = {} for {want:?} in regions {:?}",
            o.region_pinned,
            o.regions
        );
        check!(want.contains(&o.cur_proc), "current-processor-wrong", "{what}: current_processor_id = {} for {want:?}", o.cur_proc);
        let regs: Vec<u32> = want.iter().map(|i| region_of[i]).collect();
        check!(regs.contains(&o.cur_region), "current-region-wrong", "{what}: current_memory_region_id = {} for {want:?}", o.cur_region);
        check!(o.available == want, "available-not-affinity", "{what}: available to thread {:?}, affinity {want:?}", o.available);
        Ok(())
    }
}

impl Scenario for RealScenario {
    fn generate(rng: &mut Rng, mode: &str) -> Self {
        match mode {
            "real-kernel-enum" => {
                // Enumeration: run index i checks subset (i mod 65535) + 1, then re-pins to the
                // full set. The index is recovered from the PRNG state (simkit does not pass it).
                let bits = match crate::recover_index(rng, "C10", mode) {
                    Some(i) => (i % 65_535) as u32 + 1,
                    None => rng.range(1, 65_535) as u32,
                };
                Self { pins: vec![bits, 0xFFFF], via: 0 }
            }
            "real-kernel" => {
                let n = rng.range_usize(1, 4);
                let pins = (0..n)
                    .map(|_| match rng.weighted(&[2, 5, 1]) {
                        0 => 1 << rng.below(16),
                        1 => rng.range(1, 65_535) as u32,
                        _ => 0xFFFF,
                    })
                    .collect();
                Self { pins, via: rng.weighted(&[5, 3, 2]) as u8 }
            }
            other => panic!("harness-bug: unknown real-kernel mode {other}"),
        }
    }

    fn run(&self, ctx: &mut Ctx) -> Result<bool, Violation> {
        let hw = SystemHardware::current();
        // The batch thread itself is never pinned, so this is the set allowed to the process.
        let allowed = raw_affinity();
        let all = hw.all_processors();
        let region_of: BTreeMap<u32, u32> = all.iter().map(|p| (p.id(), p.memory_region_id())).collect();
        let universe: Vec<u32> = allowed.iter().copied().filter(|i| region_of.contains_key(i)).collect();
        check!(
            universe == allowed,
            "inventory-misses-allowed-processor",
            "allowed to the process {allowed:?}, reported {:?}",
            region_of.keys().collect::<Vec<_>>()
        );
        if universe.len() >= 16 {
            ctx.probe("universe>=16");
        }
        let sets: Vec<Vec<u32>> = self.pins.iter().map(|b| Self::subset(&universe, *b)).collect();
        if sets.is_empty() {
            return Ok(false);
        }
        let mk = |ids: &Vec<u32>| -> ProcessorSet {
            let ids = ids.clone();
            hw.all_processors().filter(move |p| ids.contains(&p.id())).expect("harness-bug: subset of reported")
        };
        let first = mk(&sets[0]);
        let rest: Vec<ProcessorSet> = sets[1..].iter().map(&mk).collect();
        let mut nontrivial = false;
        match self.via {
            2 => {
                let handles = first.spawn_threads(move |p: Processor| {
                    let single = hw.all_processors().filter(|x| x.id() == p.id()).expect("one");
                    (p.id(), real_observe(hw, &single))
                });
                let mut obs: Vec<(u32, RealObs)> = Vec::new();
                for jh in handles.into_vec() {
                    match jh.join() {
                        Ok(o) => obs.push(o),
                        Err(p) => panic!("{}", simkit::panic_message(&p)),
                    }
                }
                obs.sort_by_key(|(p, _)| *p);
                let entries: Vec<u32> = obs.iter().map(|(p, _)| *p).collect();
                ctx.event_str(&format!("spawn_threads({:?}) -> entries {entries:?}", sets[0]));
                check!(entries == sets[0], "spawn-threads-wrong-entries", "entries {entries:?} for set {:?}", sets[0]);
                for (p, o) in &obs {
                    Self::check_obs(&format!("spawn_threads entry {p}"), o, &[*p], &region_of)?;
                    check!(o.cur_proc == *p, "spawn-threads-not-on-processor", "entry for {p} runs on {}", o.cur_proc);
                }
                ctx.probe("real-spawn_threads");
                nontrivial |= sets[0].len() >= 2;
            }
            via => {
                let body = move |first: ProcessorSet, already_pinned: bool| -> Vec<RealObs> {
                    let mut out = Vec::new();
                    if !already_pinned {
                        first.pin_current_thread_to();
                    }
                    out.push(real_observe(hw, &first));
                    for s in &rest {
                        s.pin_current_thread_to();
                        out.push(real_observe(hw, s));
                    }
                    out
                };
                let joined = if via == 1 {
                    ctx.probe("real-spawn_thread");
                    first.spawn_thread(move |got| body(got, true)).join()
                } else {
                    ctx.probe("real-pin_current_thread_to");
                    std::thread::spawn(move || body(first, false)).join()
                };
                let obs = match joined {
                    Ok(o) => o,
                    Err(p) => panic!("{}", simkit::panic_message(&p)),
                };
                for (k, (o, want)) in obs.iter().zip(sets.iter()).enumerate() {
                    ctx.event_str(&format!(
                        "pin #{k} to {want:?} -> os affinity {:?}, pinned {}/{}, available {:?}",
                        o.kernel_affinity, o.proc_pinned, o.region_pinned, o.available
                    ));
                    Self::check_obs(&format!("pin #{k}"), o, want, &region_of)?;
                    nontrivial |= want.len() >= 2 || k > 0;
                    ctx.probe("real-kernel-subsets-read-back");
                }
            }
        }
        // The batch thread's own affinity must be untouched.
        let after = raw_affinity();
        check!(after == allowed, "affinity-leak", "the calling thread's affinity changed from {allowed:?} to {after:?}");
        Ok(nontrivial)
    }

    fn shrink(&self) -> Vec<Self> {
        let mut out = Vec::new();
        for pins in simkit::shrink::remove_chunks(&self.pins) {
            if !pins.is_empty() {
                out.push(Self { pins, via: self.via });
            }
        }
        if self.via != 0 {
            out.push(Self { pins: self.pins.clone(), via: 0 });
        }
        for (i, p) in self.pins.iter().enumerate() {
            if p.count_ones() > 1 {
                let mut pins = self.pins.clone();
                pins[i] = 1 << p.trailing_zeros();
                out.push(Self { pins, via: self.via });
            }
        }
        out
    }

    fn size(&self) -> usize {
        self.pins.iter().map(|p| 1 + p.count_ones() as usize).sum::<usize>() + usize::from(self.via)
    }
}
