//! Small independent helpers: raw affinity-mask codec (bytes + declared length, nothing shared with
//! the library's `CpuMask`), an independent cpulist parser and a cpulist renderer with the syntax
//! variants the kernel format allows.

use simkit::Rng;

/// Decodes a kernel affinity mask from the raw bytes and their declared length: bit `k` of the
/// mask is bit `k % 8` of byte `k / 8` (the little-endian `unsigned long[]` layout of x86-64 and
/// aarch64 Linux).
pub fn decode_mask(bytes: &[u8]) -> Vec<u32> {
    let mut out = Vec::new();
    for (i, b) in bytes.iter().enumerate() {
        if *b == 0 {
            continue;
        }
        for bit in 0..8_u32 {
            if b & (1_u8 << bit) != 0 {
                out.push((i as u32) * 8 + bit);
            }
        }
    }
    out
}

/// Writes `ids` into `buf` (ids beyond the buffer are dropped, like a kernel with a narrower cpumask).
pub fn encode_mask(ids: &[u32], buf: &mut [u8]) {
    for id in ids {
        let byte = (*id / 8) as usize;
        if byte < buf.len() {
            buf[byte] |= 1_u8 << (*id % 8);
        }
    }
}

/// Independent parser of the kernel cpulist format: comma separated parts, each `n`, `a-b` or
/// `a-b:stride`; empty parts are tolerated. Returns the sorted de-duplicated set.
pub fn my_parse_cpulist(text: &str) -> Result<Vec<u32>, String> {
    let mut out: Vec<u32> = Vec::new();
    for part in text.split(',') {
        if part.is_empty() {
            continue;
        }
        if let Some((a, rest)) = part.split_once('-') {
            let (b, stride) = match rest.split_once(':') {
                Some((b, s)) => (b, s.parse::<u64>().map_err(|e| format!("stride {s:?}: {e}"))?),
                None => (rest, 1),
            };
            let a = a.parse::<u32>().map_err(|e| format!("start {a:?}: {e}"))?;
            let b = b.parse::<u32>().map_err(|e| format!("end {b:?}: {e}"))?;
            if stride == 0 || a > b {
                return Err(format!("bad range {part:?}"));
            }
            let mut x = u64::from(a);
            while x <= u64::from(b) {
                out.push(x as u32);
                x += stride;
            }
        } else {
            out.push(part.parse::<u32>().map_err(|e| format!("single {part:?}: {e}"))?);
        }
    }
    out.sort_unstable();
    out.dedup();
    Ok(out)
}

pub fn sorted_dedup(mut v: Vec<u32>) -> Vec<u32> {
    v.sort_unstable();
    v.dedup();
    v
}

/// Maximal runs `(start, end_inclusive)` of a sorted de-duplicated set.
pub fn runs_of(set: &[u32]) -> Vec<(u32, u32)> {
    let mut runs: Vec<(u32, u32)> = Vec::new();
    for id in set {
        match runs.last_mut() {
            Some((_, e)) if *e != u32::MAX && *e + 1 == *id => *e = *id,
            _ => runs.push((*id, *id)),
        }
    }
    runs
}

/// How a set is written down as a cpulist.
#[derive(Clone, Copy, Debug, PartialEq, Eq)]
pub enum ListStyle {
    /// What the kernel's `%*pbl` prints: ascending, maximal runs as `a-b`, singles as `n`.
    Canonical,
    /// Every id on its own.
    Singles,
    /// Runs split at random points, `a-a` ranges, strides for arithmetic progressions,
    /// parts in random order, some parts repeated / overlapping.
    Exotic,
}

impl ListStyle {
    pub fn pick(rng: &mut Rng) -> Self {
        match rng.weighted(&[5, 2, 3]) {
            0 => Self::Canonical,
            1 => Self::Singles,
            _ => Self::Exotic,
        }
    }
}

/// Renders `set` (sorted, de-duplicated) as a cpulist in the given style. Whatever the style, the
/// text denotes exactly `set` (checked by `my_parse_cpulist` in debug paths of the callers).
pub fn render_cpulist(set: &[u32], style: ListStyle, rng: &mut Rng) -> String {
    let runs = runs_of(set);
    let mut parts: Vec<String> = Vec::new();
    match style {
        ListStyle::Canonical => {
            for (a, b) in runs {
                parts.push(if a == b { format!("{a}") } else { format!("{a}-{b}") });
            }
        }
        ListStyle::Singles => {
            for id in set {
                parts.push(format!("{id}"));
            }
        }
        ListStyle::Exotic => {
            // First: stride forms. Greedily take arithmetic progressions with stride 2..=4 out of
            // the singles that remain after run detection (only from runs of length 1).
            let singles: Vec<u32> = runs.iter().filter(|(a, b)| a == b).map(|(a, _)| *a).collect();
            let mut used = vec![false; singles.len()];
            let mut i = 0;
            while i < singles.len() {
                if used[i] {
                    i += 1;
                    continue;
                }
                let mut best: Option<(u32, Vec<usize>)> = None;
                for stride in 2..=4_u32 {
                    let mut chain = vec![i];
                    let mut next = singles[i].checked_add(stride);
                    let mut j = i + 1;
                    while let Some(want) = next {
                        while j < singles.len() && singles[j] < want {
                            j += 1;
                        }
                        if j < singles.len() && singles[j] == want && !used[j] {
                            // A stride range also names every id between in steps of `stride`:
                            // nothing else, so it is exact as long as each step is a member.
                            chain.push(j);
                            next = want.checked_add(stride);
                        } else {
                            break;
                        }
                    }
                    if chain.len() >= 3 && best.as_ref().is_none_or(|(_, c)| chain.len() > c.len()) {
                        best = Some((stride, chain));
                    }
                }
                if let (Some((stride, chain)), true) = (best, rng.chance(2, 3)) {
                    let a = singles[chain[0]];
                    let b = singles[*chain.last().expect("non-empty")];
                    // The end of a stride range need not be a member of the progression.
                    let slack = if b < u32::MAX - stride && rng.chance(1, 3) {
                        // only if b+1.. b+stride-1 adds nothing: end anywhere below the next step
                        rng.below(u64::from(stride)) as u32
                    } else {
                        0
                    };
                    parts.push(format!("{a}-{}:{stride}", b + slack));
                    for k in chain {
                        used[k] = true;
                    }
                }
                i += 1;
            }
            for (k, s) in singles.iter().enumerate() {
                if !used[k] {
                    parts.push(if rng.chance(1, 5) { format!("{s}-{s}") } else { format!("{s}") });
                }
            }
            for (a, b) in runs.iter().filter(|(a, b)| a != b) {
                // Split the run at a random point sometimes, overlap sometimes.
                let len = u64::from(*b - *a) + 1;
                match rng.weighted(&[4, 3, 2, 1]) {
                    0 => parts.push(format!("{a}-{b}")),
                    1 if len >= 2 => {
                        let cut = *a + rng.below(len - 1) as u32; // a..=b-1
                        parts.push(if *a == cut { format!("{a}") } else { format!("{a}-{cut}") });
                        let c2 = cut + 1;
                        parts.push(if c2 == *b { format!("{b}") } else { format!("{c2}-{b}") });
                    }
                    2 if len >= 3 => {
                        // overlapping halves
                        let mid = *a + (len / 2) as u32;
                        let lo_end = mid.min(*b);
                        let hi_start = (mid - 1).max(*a);
                        parts.push(format!("{a}-{lo_end}"));
                        parts.push(format!("{hi_start}-{b}"));
                    }
                    _ => {
                        parts.push(format!("{a}-{b}:1"));
                    }
                }
            }
            if !parts.is_empty() && rng.chance(1, 4) {
                let dup = parts[rng.below_usize(parts.len())].clone();
                parts.push(dup);
            }
            rng.shuffle(&mut parts);
            if rng.chance(1, 10) {
                parts.push(String::new()); // trailing comma: an empty part
            }
        }
    }
    parts.join(",")
}

#[cfg(test)]
mod tests {
    use super::*;

    #[test]
    fn render_parse_round_trip() {
        let mut rng = Rng::new(7);
        for _ in 0..20_000 {
            let n = rng.range_usize(0, 30);
            let base = if rng.chance(1, 4) { u32::MAX - 40 } else { 0 };
            let set = sorted_dedup((0..n).map(|_| base + rng.below(41) as u32).collect());
            for style in [ListStyle::Canonical, ListStyle::Singles, ListStyle::Exotic] {
                let text = render_cpulist(&set, style, &mut rng);
                assert_eq!(my_parse_cpulist(&text).unwrap(), set, "{text}");
            }
        }
    }

    #[test]
    fn mask_round_trip() {
        let ids = vec![0, 7, 8, 63, 64, 1023];
        let mut buf = vec![0_u8; 128];
        encode_mask(&ids, &mut buf);
        assert_eq!(decode_mask(&buf), ids);
    }
}
