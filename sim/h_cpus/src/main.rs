//! Harness for properties C10 (pinning takes effect in the OS; the library's view stays truthful)
//! and C11 (Linux hardware inventory equals what the kernel's text files describe) of
//! `many_cpus_impl` / `cpulist`. See /verif/DESIGN.md §5 C10, C11 and §6 finding 6.
//!
//! Modes
//! * C11 `strict` — generated machine → simulated /proc,/sys → real Linux platform code (hook H3)
//!   vs an independent interpretation of the same description. No faults.
//! * C11 `faulty` — same, with `absent_optional_file(kind)` and `hotplug_between_reads`.
//! * C11 `codec` — cpulist emit/parse round trips and masks-as-sets (seeded generation for pure
//!   functions; not a simulation).
//! * C10 `sim-strict` / `sim-faulty` — pin/query/spawn histories over 1–4 threads and 1–2 hardware
//!   instances under a simulated kernel (faulty: EINVAL until the mask is wide enough, migration).
//! * C10 `fake` — the same histories over `many_cpus_impl::fake` hardware (bookkeeping only).
//! * C10 `real-kernel` / `real-kernel-enum` — the real kernel of this machine.
//! * `known-<key>` — deterministic reproduction of the defects listed in `AVOID_KNOWN`.

mod c10;
mod c11;
mod kernel;
mod machine;
mod util;

use std::sync::atomic::{AtomicU64, Ordering};

use simkit::{Rng, entry};

/// `cpulist::emit` panics on a run of >= 3 ids that ends at `u32::MAX` (DESIGN §6 finding 6).
pub const KEY_EMIT_OVERFLOW: &str = "c11-emit-overflow-at-u32-max";
/// With `cpu/possible` absent the id space falls back to `cpu/online`, read after /proc/cpuinfo:
/// a processor that goes offline in between is enumerated but lies above the reported maximum.
pub const KEY_HOTPLUG_MAX_ID: &str = "c11-hotplug-beyond-max-id-without-possible";
/// A legacy-only cgroup hierarchy (no `0::` line) has its cpu quota ignored (documented limitation).
pub const KEY_CGROUP_V1_ONLY: &str = "c11-cgroup-v1-only-quota-ignored";
/// `thread_processors()` answers with the whole memory region for a one-region pin and with `None`
/// for a multi-region pin instead of the set the thread was pinned to.
pub const KEY_THREAD_PROCESSORS: &str = "c10-thread-processors-not-the-pinned-set";

/// Defects known on the unchanged tree. While a key is listed, ordinary modes do not generate its
/// trigger (or, for `thread_processors`, compare against the library's tracking granularity) and
/// `known-<key>` reproduces it. Remove a key once the defect is fixed in /repo.
// KEY_EMIT_OVERFLOW and KEY_HOTPLUG_MAX_ID were fixed in /repo (0d11dbe, ffda023).
const AVOID_KNOWN: &[&str] = &[KEY_CGROUP_V1_ONLY, KEY_THREAD_PROCESSORS];

pub fn avoid(key: &str) -> bool {
    AVOID_KNOWN.contains(&key)
}

static GENERATED: AtomicU64 = AtomicU64::new(0);

/// simkit does not hand the run index to `generate`; for the enumeration mode it is recovered by
/// matching the PRNG state against `Rng::for_run(seed, prop, mode, i)` for the indexes this process
/// was asked to run (`batch --seed S --start I --count N` or `gen --seed S --index I`).
pub fn recover_index(rng: &Rng, prop: &str, mode: &str) -> Option<u64> {
    let args: Vec<String> = std::env::args().collect();
    let val = |name: &str| -> Option<u64> {
        args.iter().position(|a| a == name).and_then(|i| args.get(i + 1)).and_then(|v| v.parse().ok())
    };
    let seed = val("--seed")?;
    let (start, count) = match val("--index") {
        Some(i) => (i, 1),
        None => (val("--start").unwrap_or(0), val("--count").unwrap_or(1)),
    };
    let probe = rng.clone().next_u64();
    let matches = |i: u64| Rng::for_run(seed, prop, mode, i).next_u64() == probe;
    let nth = GENERATED.fetch_add(1, Ordering::Relaxed);
    let guess = start.saturating_add(nth);
    if matches(guess) {
        return Some(guess);
    }
    (start..start.saturating_add(count)).find(|i| matches(*i))
}

fn leak(s: String) -> &'static str {
    Box::leak(s.into_boxed_str())
}

fn main() {
    let known = |key: &str| leak(format!("known-{key}"));
    simkit::cli_main(
        "h_cpus",
        vec![
            entry::<c11::MachineScenario>("C11", "strict", "generated machines, no faults, exact oracle"),
            entry::<c11::MachineScenario>("C11", "faulty", "absent optional files and hot-plug between reads"),
            entry::<c11::CodecScenario>("C11", "codec", "cpulist codec and masks as sets (seeded generation, not simulation)"),
            entry::<c11::CodecScenario>("C11", known(KEY_EMIT_OVERFLOW), "emit of a run >= 3 ending at u32::MAX"),
            entry::<c11::MachineScenario>("C11", known(KEY_HOTPLUG_MAX_ID), "no cpu/possible + highest processor unplugged before cpu/online is read"),
            entry::<c11::MachineScenario>("C11", known(KEY_CGROUP_V1_ONLY), "legacy-only cgroup hierarchy with a cpu quota"),
            entry::<c10::PinScenario>("C10", "sim-strict", "pin histories under a simulated kernel, no faults"),
            entry::<c10::PinScenario>("C10", "sim-faulty", "pin histories; EINVAL until wide enough, migration"),
            entry::<c10::PinScenario>("C10", "fake", "pin histories over fake hardware (bookkeeping)"),
            entry::<c10::PinScenario>("C10", known(KEY_THREAD_PROCESSORS), "thread_processors() after a multi-processor pin"),
            entry::<c10::RealScenario>("C10", "real-kernel", "real kernel: PRNG-chosen subsets, re-pins, spawn paths"),
            entry::<c10::RealScenario>("C10", "real-kernel-enum", "real kernel: run index i -> subset (i mod 65535)+1"),
        ],
    )
}
