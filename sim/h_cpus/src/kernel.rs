//! Simulated scheduler behind the `SimBindings` seam: a per-thread affinity table, a kernel cpumask
//! of a chosen width (EINVAL until the offered buffer is wide enough), and `sched_getcpu` that
//! migrates the thread among the processors of its affinity.

use std::collections::HashMap;
use std::io;
use std::sync::Mutex;
use std::thread::ThreadId;

use many_cpus_impl::verif::SimBindings;
use simkit::mix;

use crate::util::{decode_mask, encode_mask};

#[derive(Clone, Debug, Default)]
pub struct ThreadRec {
    /// Affinity set by the thread itself (`None`: still the process default).
    pub affinity: Option<Vec<u32>>,
    /// Every `sched_setaffinity` call of this thread: (declared length in bytes, decoded ids).
    pub set_calls: Vec<(usize, Vec<u32>)>,
    /// Every `sched_getaffinity` call: (offered length in bytes, accepted).
    pub get_calls: Vec<(usize, bool)>,
    pub getcpu_calls: u64,
    pub last_getcpu: Option<u32>,
}

#[derive(Debug, Default)]
pub struct KState {
    pub threads: HashMap<ThreadId, ThreadRec>,
    /// Stable labels for the simulated threads (ThreadIds are not stable across processes).
    pub labels: HashMap<ThreadId, u64>,
    /// Injected fault: the next `sched_setaffinity` of that thread fails with this errno.
    pub fail_next_set: HashMap<ThreadId, i32>,
}

#[derive(Debug)]
pub struct SimKernel {
    /// Size of the kernel's cpumask in bytes (`nr_cpu_ids / 8`).
    pub width_bytes: usize,
    /// Affinity of a thread that never set one: the processors the process may use.
    pub default_affinity: Vec<u32>,
    /// `sched_getcpu` picks any member of the affinity (otherwise the lowest).
    pub migrate: bool,
    pub seed: u64,
    pub st: Mutex<KState>,
}

impl SimKernel {
    pub fn new(width_bytes: usize, default_affinity: Vec<u32>, migrate: bool, seed: u64) -> Self {
        Self {
            width_bytes,
            default_affinity,
            migrate,
            seed,
            st: Mutex::new(KState::default()),
        }
    }

    pub fn register(&self, tid: ThreadId, label: u64) {
        let mut st = self.st.lock().expect("kernel state");
        st.labels.insert(tid, label);
        st.threads.entry(tid).or_default();
    }

    pub fn rec(&self, tid: ThreadId) -> ThreadRec {
        self.st.lock().expect("kernel state").threads.get(&tid).cloned().unwrap_or_default()
    }

    /// Arms the injected failure of the thread's next `sched_setaffinity` call.
    pub fn fail_next_setaffinity(&self, tid: ThreadId, errno: i32) {
        self.st.lock().expect("kernel state").fail_next_set.insert(tid, errno);
    }

    pub fn affinity_of(&self, tid: ThreadId) -> Vec<u32> {
        self.rec(tid).affinity.unwrap_or_else(|| self.default_affinity.clone())
    }
}

impl SimBindings for SimKernel {
    fn sched_setaffinity_current(&self, mask: &[u8]) -> Result<(), io::Error> {
        let tid = std::thread::current().id();
        // Independent decoding: raw bytes and their declared length only.
        let ids = decode_mask(mask);
        let mut st = self.st.lock().expect("kernel state");
        let rec = st.threads.entry(tid).or_default();
        if let Some(errno) = st.fail_next_set.remove(&tid) {
            // The call is refused (cpuset shrank: EINVAL; not permitted: EPERM): nothing changes.
            return Err(io::Error::from_raw_os_error(errno));
        }
        let rec = st.threads.entry(tid).or_default();
        rec.set_calls.push((mask.len(), ids.clone()));
        // The kernel ignores bits beyond its own cpumask and refuses an empty result.
        let limit = (self.width_bytes * 8) as u32;
        let effective: Vec<u32> = ids.into_iter().filter(|i| *i < limit).collect();
        if effective.is_empty() {
            return Err(io::Error::from_raw_os_error(libc::EINVAL));
        }
        rec.affinity = Some(effective);
        Ok(())
    }

    fn sched_getaffinity_current(&self, mask: &mut [u8]) -> Result<(), io::Error> {
        let tid = std::thread::current().id();
        let mut st = self.st.lock().expect("kernel state");
        let default = self.default_affinity.clone();
        let rec = st.threads.entry(tid).or_default();
        // kernel/sched/syscalls.c: EINVAL if the buffer cannot hold nr_cpu_ids bits or is not a
        // whole number of longs.
        let ok = mask.len() >= self.width_bytes && mask.len() % size_of::<libc::c_ulong>() == 0;
        rec.get_calls.push((mask.len(), ok));
        if !ok {
            return Err(io::Error::from_raw_os_error(libc::EINVAL));
        }
        let aff = rec.affinity.clone().unwrap_or(default);
        let w = self.width_bytes;
        encode_mask(&aff, &mut mask[..w]);
        Ok(())
    }

    fn sched_getcpu(&self) -> i32 {
        let tid = std::thread::current().id();
        let mut st = self.st.lock().expect("kernel state");
        let label = st.labels.get(&tid).copied();
        let default = self.default_affinity.clone();
        let rec = st.threads.entry(tid).or_default();
        let aff = rec.affinity.clone().unwrap_or(default);
        rec.getcpu_calls += 1;
        let cpu = if self.migrate {
            // A thread the harness did not label (spawned by the library) is labelled by its
            // affinity, so the choice does not depend on OS scheduling of concurrent threads.
            let label = label.unwrap_or_else(|| aff.iter().fold(0x5eed, |h, i| mix(h, u64::from(*i))));
            let r = mix(mix(self.seed, label), rec.getcpu_calls);
            aff[(r % aff.len() as u64) as usize]
        } else {
            aff[0]
        };
        rec.last_getcpu = Some(cpu);
        cpu as i32
    }
}
