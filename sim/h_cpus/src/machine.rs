//! Machine descriptions, their rendering into the text files the Linux platform code reads
//! (`/proc/cpuinfo`, `/proc/self/status`, `/proc/self/cgroup`, `/sys/devices/system/{cpu,node}/…`,
//! `/sys/fs/cgroup/…`), the simulated filesystem behind `SimFilesystem` (with absent-file and
//! hot-plug faults), and the independent interpretation of a description used as the oracle.

use std::collections::{BTreeMap, BTreeSet};
use std::sync::Mutex;

use many_cpus_impl::verif::SimFilesystem;
use serde::{Deserialize, Serialize};
use simkit::{Rng, mix};

use crate::util::{ListStyle, my_parse_cpulist, render_cpulist, sorted_dedup};

#[derive(Clone, Debug, Serialize, Deserialize, PartialEq)]
pub enum Bogo {
    /// No bogomips line at all.
    Missing,
    /// `bogomips : ` with nothing after the colon.
    Blank,
    /// The value as written (e.g. `4890.85`).
    Value(String),
}

#[derive(Clone, Debug, Serialize, Deserialize, PartialEq)]
pub enum Model {
    None,
    /// `model name : …`
    Name(String),
    /// ARM identity fields instead of a model name.
    Arm { implementer: Option<String>, part: Option<String> },
}

#[derive(Clone, Debug, Serialize, Deserialize, PartialEq)]
pub struct Cpu {
    pub id: u32,
    pub online: bool,
    /// This kernel keeps the processor in /proc/cpuinfo while it is offline.
    pub listed_if_offline: bool,
    /// `/sys/devices/system/cpu/cpuN/online` exists (hot-pluggable processor). A processor without
    /// the file is always online (kernel contract).
    pub online_file: bool,
    /// The node whose member list names this processor (`None`: no node does).
    pub node: Option<u32>,
    pub bogomips: Bogo,
    pub model: Model,
}

#[derive(Clone, Debug, Serialize, Deserialize, PartialEq)]
pub struct Node {
    pub id: u32,
    /// `nodeN/` exists, so `nodeN/cpulist` can be read (a possible-but-never-onlined node has none).
    pub dir: bool,
    /// Ids the node's list names although /proc/cpuinfo has no record for them (never ids of
    /// present processors).
    pub extra: Vec<u32>,
}

#[derive(Clone, Debug, Serialize, Deserialize, PartialEq)]
pub enum NodeLayout {
    /// `/sys/devices/system/node` does not exist.
    NoNodeDir,
    /// `node/possible` exists but names nothing.
    EmptyPossible,
    Nodes(Vec<Node>),
}

#[derive(Clone, Debug, Serialize, Deserialize, PartialEq)]
pub enum Cgroup {
    /// `/proc/self/cgroup` does not exist.
    NoFile,
    /// Unified hierarchy: `0::<name>` and `<name>/cpu.max` = `max <period>` or `<quota> <period>`.
    V2 { name: String, limit: Option<(u64, u64)>, period_when_max: u64, v1_lines: bool },
    /// Hybrid: the name is published on the `0::` line, the cpu controller lives on v1
    /// (`cpu.cfs_quota_us` (-1 = unlimited) and `cpu.cfs_period_us`).
    V1 { name: String, quota: i64, period: u64 },
    /// A cgroup exists but carries no cpu files at all.
    NoCpuFiles { name: String },
    /// Legacy-only hierarchy: v1 lines, no `0::` line. (Documented as unsupported by the library:
    /// only generated when the known-finding key is not avoided.)
    V1Only { name: String, quota: i64, period: u64 },
}

#[derive(Clone, Debug, Serialize, Deserialize, PartialEq)]
pub struct CpuinfoStyle {
    /// 0: the kernel's natural casing; 1: bogomips casing flipped; 2: capitalised keys;
    /// 3: upper-case keys.
    pub key_case: u8,
    /// A final blank-line separated block of machine facts with no processor index.
    pub trailing_block: bool,
    /// Extra per-processor lines (flags, cache size, `power management:` …).
    pub extra_lines: bool,
    /// Blank lines before the first block / doubled between blocks.
    pub loose_blank_lines: bool,
}

#[derive(Clone, Debug, Serialize, Deserialize, PartialEq)]
pub struct Machine {
    /// `/sys/devices/system/cpu/possible` (sorted set).
    pub possible: Vec<u32>,
    /// Present processors (subset of possible), ascending by id.
    pub cpus: Vec<Cpu>,
    /// `Cpus_allowed_list` (sorted set, may name ids that are not present).
    pub allowed: Vec<u32>,
    /// The processor this process runs on: present, online, allowed, never hot-unplugged.
    pub home: u32,
    pub nodes: NodeLayout,
    /// Older kernels: a node's list names its offline processors too.
    pub node_lists_offline: bool,
    pub cpuinfo: CpuinfoStyle,
    pub cgroup: Cgroup,
    /// Seeds the choice of list syntax for each rendered cpulist.
    pub style_seed: u64,
}

#[derive(Clone, Debug, Serialize, Deserialize, PartialEq, Eq, PartialOrd, Ord)]
pub enum Absent {
    Possible,
    Online,
    NodePossible,
    NodeCpulist(u32),
    /// Every per-processor `online` file of an *online* processor (an offline processor's file is
    /// the only place its state is published, removing it would make the machine lie).
    CpuOnline,
    ProcCgroup,
    V2CpuMax,
    V1Quota,
    V1Period,
}

impl Absent {
    pub fn name(&self) -> &'static str {
        match self {
            Self::Possible => "absent_optional_file(cpu/possible)",
            Self::Online => "absent_optional_file(cpu/online)",
            Self::NodePossible => "absent_optional_file(node/possible)",
            Self::NodeCpulist(_) => "absent_optional_file(nodeN/cpulist)",
            Self::CpuOnline => "absent_optional_file(cpuN/online)",
            Self::ProcCgroup => "absent_optional_file(proc/self/cgroup)",
            Self::V2CpuMax => "absent_optional_file(cgroup/cpu.max)",
            Self::V1Quota => "absent_optional_file(cgroup/cpu.cfs_quota_us)",
            Self::V1Period => "absent_optional_file(cgroup/cpu.cfs_period_us)",
        }
    }
}

/// One hot-plug event: before the `at_call`-th filesystem accessor call (1-based) is served, the
/// processor's online state flips.
#[derive(Clone, Debug, Serialize, Deserialize, PartialEq)]
pub struct Hotplug {
    pub at_call: u64,
    pub cpu: u32,
}

#[derive(Clone, Debug, Default, Serialize, Deserialize, PartialEq)]
pub struct FaultPlan {
    pub absent: Vec<Absent>,
    pub hotplug: Vec<Hotplug>,
}

impl FaultPlan {
    pub fn is_absent(&self, a: &Absent) -> bool {
        self.absent.contains(a)
    }
}

// ------------------------------------------------------------------------------------------------
// Generation
// ------------------------------------------------------------------------------------------------

const MODEL_NAMES: &[&str] = &[
    "AMD EPYC 9V74 80-Core Processor",
    "Intel(R) Xeon(R) Platinum 8370C CPU @ 2.80GHz",
    "Neoverse-N1",
    "model: with a colon",
    " ",
];

const CGROUP_NAMES: &[&str] = &[
    "/",
    "/foo",
    "/foo/bar",
    "/docker/6a74f501e3b4c9d93ad440a7b73149cf2b5d56073c109a8d774c0793f7fe267f",
    "/kubepods.slice/kubepods-burstable.slice/kubepods-burstable-pod1234.slice/cri-containerd-abcd.scope",
    "/system.slice/app.service",
    "/user.slice/user-1000.slice/session 3.scope",
    "/a:b/c",
];

pub struct GenOptions {
    /// Largest number of possible processors.
    pub max_possible: u32,
    /// Generate the legacy-only cgroup layout (known limitation of the library).
    pub allow_v1_only: bool,
}

fn pick_possible_count(rng: &mut Rng, max: u32) -> u32 {
    if rng.chance(1, 6) {
        // 64k+1 possible processors: the highest id sits alone in the last 64-bit word of a mask.
        let n = 64 * *rng.pick(&[1_u32, 1, 2, 3, 4, 8, 16]) + 1;
        if n <= max {
            return n;
        }
    }
    let n = match rng.weighted(&[40, 30, 20, 10]) {
        0 => rng.range(1, 8),
        1 => rng.range(9, 64),
        2 => rng.range(65, 256),
        _ => rng.range(257, 1024),
    } as u32;
    n.min(max).max(1)
}

fn gen_bogo(rng: &mut Rng, base: &str) -> Bogo {
    match rng.weighted(&[70, 10, 10, 10]) {
        0 => Bogo::Value(base.to_owned()),
        1 => Bogo::Missing,
        2 => Bogo::Blank,
        _ => Bogo::Value((*rng.pick(&["50.00", "4890.85", "0.00", "1e3", "38.40", "nan", "abc", "7000"])).to_owned()),
    }
}

fn gen_model(rng: &mut Rng, arm: bool) -> Model {
    if arm {
        let imp = match rng.weighted(&[6, 1, 1]) {
            0 => Some("0x41".to_owned()),
            1 => Some("0X0041".to_owned()),
            _ => None,
        };
        let part = match rng.weighted(&[6, 1, 1]) {
            0 => Some("0xd0c".to_owned()),
            1 => Some("zzz".to_owned()),
            _ => None,
        };
        Model::Arm { implementer: imp, part }
    } else {
        match rng.weighted(&[8, 1]) {
            0 => Model::Name((*rng.pick(MODEL_NAMES)).to_owned()),
            _ => Model::None,
        }
    }
}

pub fn gen_cgroup(rng: &mut Rng, opts: &GenOptions) -> Cgroup {
    let name = (*rng.pick(CGROUP_NAMES)).to_owned();
    let period = *rng.pick(&[100_000_u64, 100_000, 50_000, 1_000, 1_000_000, 7]);
    let quota = match rng.weighted(&[3, 3, 2, 1, 1]) {
        0 => period * rng.range(1, 8),                       // whole processors
        1 => period * rng.range(0, 3) + rng.range(1, period), // fractional
        2 => rng.range(1, period),                           // below one processor
        3 => period * rng.range(64, 4096),                   // more than the machine has
        _ => rng.range(1, 3),
    };
    let kinds: &[u32] = if opts.allow_v1_only { &[3, 6, 4, 1, 3] } else { &[3, 6, 4, 1, 0] };
    match rng.weighted(kinds) {
        0 => Cgroup::NoFile,
        1 => Cgroup::V2 {
            name,
            limit: if rng.chance(1, 3) { None } else { Some((quota, period)) },
            period_when_max: period,
            v1_lines: rng.chance(1, 3),
        },
        2 => Cgroup::V1 {
            name,
            quota: if rng.chance(1, 4) { -1 } else { quota as i64 },
            period,
        },
        3 => Cgroup::NoCpuFiles { name },
        _ => Cgroup::V1Only { name, quota: quota as i64, period },
    }
}

/// Draws a well-formed machine (see the field docs for what well-formed means).
pub fn gen_machine(rng: &mut Rng, opts: &GenOptions) -> Machine {
    let n_possible = pick_possible_count(rng, opts.max_possible);
    // Possible set: usually 0..n, sometimes with a hole.
    let mut possible: Vec<u32> = (0..n_possible).collect();
    if n_possible >= 4 && rng.chance(1, 10) {
        let a = rng.below(u64::from(n_possible) - 1) as u32 + 1;
        let b = (a + rng.below(4) as u32 + 1).min(n_possible);
        possible.retain(|x| *x < a || *x >= b);
    }
    // Present processors: all possible, a prefix, or a random subset.
    let present: Vec<u32> = match rng.weighted(&[5, 3, 2]) {
        0 => possible.clone(),
        1 => {
            let k = rng.range_usize(1, possible.len());
            possible[..k].to_vec()
        }
        _ => {
            let mut v: Vec<u32> = possible.iter().copied().filter(|_| rng.chance(2, 3)).collect();
            if v.is_empty() {
                v.push(*rng.pick(&possible));
            }
            v
        }
    };
    let home = *rng.pick(&present);

    // Nodes.
    let nodes = match rng.weighted(&[2, 1, 10]) {
        0 => NodeLayout::NoNodeDir,
        1 => NodeLayout::EmptyPossible,
        _ => {
            let n_nodes = rng.range_usize(1, 8);
            let mut ids: BTreeSet<u32> = BTreeSet::new();
            let sparse = rng.chance(1, 4);
            while ids.len() < n_nodes {
                ids.insert(if sparse { rng.below(40) as u32 } else { ids.len() as u32 });
            }
            let mut v: Vec<Node> = ids
                .into_iter()
                .map(|id| Node { id, dir: !rng.chance(1, 6), extra: Vec::new() })
                .collect();
            if !v.iter().any(|n| n.dir) {
                let k = rng.below_usize(v.len());
                v[k].dir = true;
            }
            NodeLayout::Nodes(v)
        }
    };
    let node_dirs: Vec<u32> = match &nodes {
        NodeLayout::Nodes(v) => v.iter().filter(|n| n.dir).map(|n| n.id).collect(),
        _ => Vec::new(),
    };
    // Membership: contiguous blocks (as hardware does) or arbitrary.
    let arbitrary_membership = rng.chance(1, 2);
    // A node with a directory may still stay empty: use a random subset of them as owners.
    let owners: Vec<u32> = {
        let mut o: Vec<u32> = node_dirs.iter().copied().filter(|_| rng.chance(5, 6)).collect();
        if o.is_empty() && !node_dirs.is_empty() {
            o.push(*rng.pick(&node_dirs));
        }
        o
    };

    let arm = rng.chance(1, 4);
    let base_bogo = (*rng.pick(&["4890.85", "50.00", "5187.81"])).to_owned();
    let hetero = rng.chance(1, 4);
    let any_offline = rng.chance(1, 2);
    let kernel_lists_offline = rng.chance(1, 3);
    let no_online_files = rng.chance(1, 8); // a flavour that publishes no per-processor file at all
    let n_present = present.len();
    let cpus: Vec<Cpu> = present
        .iter()
        .enumerate()
        .map(|(i, id)| {
            let online = *id == home || no_online_files || !(any_offline && rng.chance(1, 4));
            let online_file = if no_online_files {
                false
            } else if !online {
                true
            } else {
                // processor 0 commonly has none; others sometimes lack it too
                !(*id == 0 && rng.chance(3, 4)) && !rng.chance(1, 12)
            };
            let node = if owners.is_empty() || rng.chance(1, 40) {
                None
            } else if arbitrary_membership {
                Some(*rng.pick(&owners))
            } else {
                Some(owners[i * owners.len() / n_present])
            };
            let bogo = if hetero && rng.chance(1, 2) { "2400.00" } else { base_bogo.as_str() };
            Cpu {
                id: *id,
                online,
                listed_if_offline: kernel_lists_offline && rng.chance(3, 4),
                online_file,
                node,
                bogomips: gen_bogo(rng, bogo),
                model: gen_model(rng, arm),
            }
        })
        .collect();

    // Allowed list.
    let allowed: Vec<u32> = match rng.weighted(&[4, 3, 2, 1]) {
        0 => possible.clone(),
        1 => present.iter().copied().filter(|_| rng.chance(1, 2)).collect(),
        2 => {
            // a contiguous window
            let a = rng.below_usize(possible.len());
            let b = rng.range_usize(a, possible.len() - 1);
            possible[a..=b].to_vec()
        }
        _ => vec![home],
    };
    let mut allowed = sorted_dedup(allowed);
    if !allowed.contains(&home) {
        allowed.push(home);
        allowed.sort_unstable();
    }

    let mut m = Machine {
        possible,
        cpus,
        allowed,
        home,
        nodes,
        node_lists_offline: rng.chance(1, 4),
        cpuinfo: CpuinfoStyle {
            key_case: rng.weighted(&[5, 2, 2, 1]) as u8,
            trailing_block: rng.chance(1, 3),
            extra_lines: n_present <= 64 && rng.chance(1, 2),
            loose_blank_lines: rng.chance(1, 5),
        },
        cgroup: gen_cgroup(rng, opts),
        style_seed: rng.next_u64(),
    };
    // A node listing ids /proc/cpuinfo lacks.
    if let NodeLayout::Nodes(v) = &mut m.nodes {
        let present_set: BTreeSet<u32> = m.cpus.iter().map(|c| c.id).collect();
        for n in v.iter_mut() {
            if n.dir && rng.chance(1, 5) {
                for _ in 0..rng.range(1, 3) {
                    let id = rng.below(1100) as u32;
                    if !present_set.contains(&id) {
                        n.extra.push(id);
                    }
                }
                n.extra = sorted_dedup(std::mem::take(&mut n.extra));
            }
        }
    }
    m.normalize();
    m
}

/// A plain machine for the pinning harness: every processor present, online, listed and owned by
/// the node named after its region; `possible` spans the whole kernel cpumask.
pub fn simple_machine(width_bits: u32, cpus: &[(u32, u32)], allowed: &[u32], style_seed: u64) -> Machine {
    let mut node_ids: Vec<u32> = cpus.iter().map(|(_, r)| *r).collect();
    node_ids = sorted_dedup(node_ids);
    let mut v: Vec<Cpu> = cpus
        .iter()
        .map(|(id, region)| Cpu {
            id: *id,
            online: true,
            listed_if_offline: false,
            online_file: *id != 0,
            node: Some(*region),
            bogomips: Bogo::Value("4890.85".to_owned()),
            model: Model::Name("Simulated".to_owned()),
        })
        .collect();
    v.sort_by_key(|c| c.id);
    let home = allowed
        .iter()
        .copied()
        .find(|a| v.iter().any(|c| c.id == *a))
        .unwrap_or(v[0].id);
    Machine {
        possible: (0..width_bits).collect(),
        cpus: v,
        allowed: sorted_dedup(allowed.to_vec()),
        home,
        nodes: NodeLayout::Nodes(node_ids.into_iter().map(|id| Node { id, dir: true, extra: Vec::new() }).collect()),
        node_lists_offline: false,
        cpuinfo: CpuinfoStyle { key_case: 0, trailing_block: false, extra_lines: false, loose_blank_lines: false },
        cgroup: Cgroup::NoFile,
        style_seed,
    }
}

impl Machine {
    /// Repairs a description so that it is well-formed again (used after shrinking): keeps ids
    /// consistent, guarantees the home processor and the file-contract invariants.
    pub fn normalize(&mut self) {
        self.possible = sorted_dedup(std::mem::take(&mut self.possible));
        self.cpus.sort_by_key(|c| c.id);
        self.cpus.dedup_by_key(|c| c.id);
        if self.cpus.is_empty() {
            let id = self.possible.first().copied().unwrap_or(0);
            self.cpus.push(Cpu {
                id,
                online: true,
                listed_if_offline: false,
                online_file: false,
                node: None,
                bogomips: Bogo::Missing,
                model: Model::None,
            });
        }
        for c in &self.cpus {
            if !self.possible.contains(&c.id) {
                self.possible.push(c.id);
            }
        }
        self.possible.sort_unstable();
        if !self.cpus.iter().any(|c| c.id == self.home) {
            self.home = self.cpus[0].id;
        }
        let home = self.home;
        let dirs: Vec<u32> = match &self.nodes {
            NodeLayout::Nodes(v) => v.iter().filter(|n| n.dir).map(|n| n.id).collect(),
            _ => Vec::new(),
        };
        for c in &mut self.cpus {
            if c.id == home {
                c.online = true;
            }
            if !c.online {
                c.online_file = true;
            }
            if let Some(n) = c.node {
                if !dirs.contains(&n) {
                    c.node = None;
                }
            }
        }
        self.allowed = sorted_dedup(std::mem::take(&mut self.allowed));
        if !self.allowed.contains(&home) {
            self.allowed.push(home);
            self.allowed.sort_unstable();
        }
        let present: BTreeSet<u32> = self.cpus.iter().map(|c| c.id).collect();
        if let NodeLayout::Nodes(v) = &mut self.nodes {
            v.sort_by_key(|n| n.id);
            v.dedup_by_key(|n| n.id);
            for n in v.iter_mut() {
                n.extra.retain(|x| !present.contains(x));
                if !n.dir {
                    n.extra.clear();
                }
            }
            if v.is_empty() {
                self.nodes = NodeLayout::EmptyPossible;
            }
        }
    }

    pub fn node_ids(&self) -> Vec<u32> {
        match &self.nodes {
            NodeLayout::Nodes(v) => v.iter().map(|n| n.id).collect(),
            _ => Vec::new(),
        }
    }

    pub fn node_count(&self) -> usize {
        self.node_ids().len()
    }

    pub fn online_set(&self) -> Vec<u32> {
        self.cpus.iter().filter(|c| c.online).map(|c| c.id).collect()
    }

    /// Size measure for the minimiser.
    pub fn size(&self) -> usize {
        let nodes = match &self.nodes {
            NodeLayout::NoNodeDir => 0,
            NodeLayout::EmptyPossible => 1,
            NodeLayout::Nodes(v) => 2 + v.iter().map(|n| 2 + n.extra.len() + usize::from(!n.dir)).sum::<usize>(),
        };
        let cpus: usize = self
            .cpus
            .iter()
            .map(|c| {
                4 + usize::from(!c.online)
                    + usize::from(c.listed_if_offline)
                    + usize::from(c.online_file)
                    + usize::from(c.node.is_some())
                    + usize::from(c.bogomips != Bogo::Missing)
                    + usize::from(c.model != Model::None)
            })
            .sum();
        let cg = match &self.cgroup {
            Cgroup::NoFile => 0,
            Cgroup::NoCpuFiles { .. } => 1,
            _ => 2,
        };
        let style = usize::from(self.cpuinfo.key_case != 0)
            + usize::from(self.cpuinfo.trailing_block)
            + usize::from(self.cpuinfo.extra_lines)
            + usize::from(self.cpuinfo.loose_blank_lines)
            + usize::from(self.node_lists_offline)
            + usize::from(self.style_seed != 0);
        cpus + nodes + cg + style + self.possible.len() + self.allowed.len()
    }

    /// Smaller well-formed variants.
    pub fn shrink(&self) -> Vec<Machine> {
        let mut out: Vec<Machine> = Vec::new();
        let mut push = |mut m: Machine| {
            m.normalize();
            if m.size() < self.size() {
                out.push(m);
            }
        };
        for cpus in simkit::shrink::remove_chunks(&self.cpus) {
            let mut m = self.clone();
            m.cpus = cpus;
            push(m);
        }
        {
            // possible down to exactly the present processors
            let mut m = self.clone();
            m.possible = m.cpus.iter().map(|c| c.id).collect();
            push(m);
            let mut m = self.clone();
            m.allowed.retain(|a| self.cpus.iter().any(|c| c.id == *a));
            push(m);
            let mut m = self.clone();
            m.allowed = vec![m.home];
            push(m);
        }
        match &self.nodes {
            NodeLayout::Nodes(v) => {
                let mut m = self.clone();
                m.nodes = NodeLayout::NoNodeDir;
                push(m);
                for nodes in simkit::shrink::remove_chunks(v) {
                    let mut m = self.clone();
                    m.nodes = NodeLayout::Nodes(nodes);
                    push(m);
                }
                for (i, n) in v.iter().enumerate() {
                    if !n.extra.is_empty() {
                        let mut m = self.clone();
                        if let NodeLayout::Nodes(v2) = &mut m.nodes {
                            v2[i].extra.clear();
                        }
                        push(m);
                    }
                    if !n.dir {
                        let mut m = self.clone();
                        if let NodeLayout::Nodes(v2) = &mut m.nodes {
                            v2[i].dir = true;
                        }
                        push(m);
                    }
                }
            }
            NodeLayout::EmptyPossible => {
                let mut m = self.clone();
                m.nodes = NodeLayout::NoNodeDir;
                push(m);
            }
            NodeLayout::NoNodeDir => {}
        }
        if self.cgroup != Cgroup::NoFile {
            let mut m = self.clone();
            m.cgroup = Cgroup::NoFile;
            push(m);
        }
        {
            let mut m = self.clone();
            m.cpuinfo = CpuinfoStyle { key_case: 0, trailing_block: false, extra_lines: false, loose_blank_lines: false };
            m.node_lists_offline = false;
            m.style_seed = 0;
            push(m);
        }
        {
            // every processor plain
            let mut m = self.clone();
            for c in &mut m.cpus {
                c.online = true;
                c.listed_if_offline = false;
                c.online_file = false;
                c.bogomips = Bogo::Missing;
                c.model = Model::None;
            }
            push(m);
            let mut m = self.clone();
            for c in &mut m.cpus {
                c.node = None;
            }
            push(m);
        }
        for (i, c) in self.cpus.iter().enumerate() {
            if self.cpus.len() > 12 {
                break;
            }
            let mut m = self.clone();
            let d = &mut m.cpus[i];
            d.online = true;
            d.listed_if_offline = false;
            d.online_file = false;
            d.bogomips = Bogo::Missing;
            d.model = Model::None;
            d.node = None;
            if *d != *c {
                push(m);
            }
        }
        out
    }
}

// ------------------------------------------------------------------------------------------------
// Rendering
// ------------------------------------------------------------------------------------------------

fn key(style: &CpuinfoStyle, natural: &str) -> String {
    match style.key_case {
        0 => natural.to_owned(),
        1 => match natural {
            "bogomips" => "BogoMIPS".to_owned(),
            "BogoMIPS" => "bogomips".to_owned(),
            other => other.to_owned(),
        },
        2 => {
            // Capitalise every word.
            natural
                .split(' ')
                .map(|w| {
                    let mut cs = w.chars();
                    match cs.next() {
                        Some(f) => f.to_ascii_uppercase().to_string() + cs.as_str(),
                        None => String::new(),
                    }
                })
                .collect::<Vec<_>>()
                .join(" ")
        }
        _ => natural.to_ascii_uppercase(),
    }
}

fn kv(out: &mut String, k: &str, v: &str) {
    out.push_str(k);
    // the kernel pads keys with tabs
    out.push_str(if k.len() < 8 { "\t\t: " } else { "\t: " });
    out.push_str(v);
    // a blank value is rendered as "key\t:" + newline by some files, "key\t: " by others
    out.push('\n');
}

/// Renders `/proc/cpuinfo` for the processors in `listed` (ascending).
pub fn render_cpuinfo(m: &Machine, listed: &[&Cpu]) -> String {
    let st = &m.cpuinfo;
    let mut out = String::with_capacity(listed.len() * 96 + 64);
    if st.loose_blank_lines {
        out.push('\n');
    }
    for c in listed {
        let arm = matches!(c.model, Model::Arm { .. });
        kv(&mut out, &key(st, "processor"), &c.id.to_string());
        if st.extra_lines && !arm {
            kv(&mut out, "vendor_id", "GenuineIntel");
            kv(&mut out, "cpu family", "6");
        }
        match &c.model {
            Model::Name(n) => kv(&mut out, &key(st, "model name"), n),
            Model::None | Model::Arm { .. } => {}
        }
        if st.extra_lines && !arm {
            kv(&mut out, "cpu MHz", "2593.906");
            kv(&mut out, "cache size", "36608 KB");
            kv(&mut out, "flags", "fpu vme de pse tsc msr pae mce cx8 apic sep mtrr");
        }
        match &c.bogomips {
            Bogo::Missing => {}
            Bogo::Blank => kv(&mut out, &key(st, if arm { "BogoMIPS" } else { "bogomips" }), ""),
            Bogo::Value(v) => kv(&mut out, &key(st, if arm { "BogoMIPS" } else { "bogomips" }), v),
        }
        if let Model::Arm { implementer, part } = &c.model {
            if st.extra_lines {
                kv(&mut out, "Features", "fp asimd evtstrm aes pmull sha1 sha2 crc32");
            }
            if let Some(i) = implementer {
                kv(&mut out, &key(st, "CPU implementer"), i);
            }
            if st.extra_lines {
                kv(&mut out, "CPU architecture", "8");
                kv(&mut out, "CPU variant", "0x3");
            }
            if let Some(p) = part {
                kv(&mut out, &key(st, "CPU part"), p);
            }
            if st.extra_lines {
                kv(&mut out, "CPU revision", "1");
            }
        }
        if st.extra_lines && !arm {
            out.push_str("power management:\n");
        }
        out.push('\n');
        if st.loose_blank_lines {
            out.push_str("  \n");
        }
    }
    if st.trailing_block {
        kv(&mut out, "Hardware", "BCM2835");
        kv(&mut out, "Revision", "a02082");
        kv(&mut out, "Serial", "00000000abcdef01");
        kv(&mut out, "Model", "Raspberry Pi 3 Model B Rev 1.2");
    }
    out
}

fn list_text(m: &Machine, what: u64, set: &[u32]) -> String {
    let mut rng = Rng::new(mix(m.style_seed, what));
    let style = if m.style_seed == 0 { ListStyle::Canonical } else { ListStyle::pick(&mut rng) };
    let text = render_cpulist(set, style, &mut rng);
    debug_assert_eq!(my_parse_cpulist(&text).as_deref(), Ok(set), "harness-bug: renderer");
    text
}

pub fn render_status(m: &Machine) -> String {
    let list = list_text(m, 1, &m.allowed);
    format!(
        "Name:\th_cpus\nUmask:\t0022\nState:\tR (running)\nTgid:\t4242\nPid:\t4242\nThreads:\t1\n\
         SigQ:\t0/255204\nSeccomp:\t0\nSpeculation_Store_Bypass:\tthread vulnerable\n\
         Cpus_allowed:\tffffffff\nCpus_allowed_list:\t{list}\nMems_allowed:\t1\nMems_allowed_list:\t0\n\
         voluntary_ctxt_switches:\t3\nnonvoluntary_ctxt_switches:\t0\n"
    )
}

pub fn render_proc_cgroup(cg: &Cgroup) -> Option<String> {
    match cg {
        Cgroup::NoFile => None,
        Cgroup::V2 { name, v1_lines, .. } => Some(if *v1_lines {
            format!("0::{name}\n1:name=systemd:{name}\n")
        } else {
            format!("0::{name}\n")
        }),
        Cgroup::V1 { name, .. } => Some(format!(
            "17:cpuset:{name}\n16:cpu,cpuacct:{name}\n15:memory:{name}\n0::{name}\n"
        )),
        Cgroup::NoCpuFiles { name } => Some(format!("0::{name}\n")),
        Cgroup::V1Only { name, .. } => Some(format!(
            "12:cpuset:{name}\n4:cpu,cpuacct:{name}\n3:memory:{name}\n1:name=systemd:{name}\n"
        )),
    }
}

// ------------------------------------------------------------------------------------------------
// Simulated filesystem
// ------------------------------------------------------------------------------------------------

#[derive(Debug, Default)]
pub struct FsState {
    /// Dynamic online state (hot-plug flips it).
    pub online: BTreeMap<u32, bool>,
    pub calls: u64,
    /// (code, text) of every accessor call, in order: merged into the run's event log.
    pub log: Vec<(u64, String)>,
    pub hotplug_fired: Vec<Hotplug>,
    pub absent_fired: BTreeMap<&'static str, u64>,
    /// Ids listed by the cpuinfo reading that was served (first reading).
    pub served_listing: Option<Vec<u32>>,
    pub cpuinfo_reads: u64,
    /// A cgroup accessor was asked about a name other than the process's cgroup.
    pub wrong_cgroup_name: Option<String>,
    pub per_cpu_online_reads: u64,
}

#[derive(Debug)]
pub struct SimFs {
    pub m: Machine,
    pub faults: FaultPlan,
    pub keep_text: bool,
    pub st: Mutex<FsState>,
}

impl SimFs {
    pub fn new(m: Machine, faults: FaultPlan, keep_text: bool) -> Self {
        let online = m.cpus.iter().map(|c| (c.id, c.online)).collect();
        Self {
            m,
            faults,
            keep_text,
            st: Mutex::new(FsState { online, ..FsState::default() }),
        }
    }

    /// Start of every accessor: counts the call and applies the hot-plug events that are due.
    fn tick(&self, st: &mut FsState) {
        st.calls += 1;
        for h in &self.faults.hotplug {
            if h.at_call == st.calls {
                if let Some(v) = st.online.get_mut(&h.cpu) {
                    *v = !*v;
                    st.hotplug_fired.push(h.clone());
                }
            }
        }
    }

    fn note(&self, st: &mut FsState, what: u64, arg: u64, served: &Option<String>) {
        let content_hash = match served {
            Some(s) => simkit::hash_str(s),
            None => 1,
        };
        let code = mix(mix(what, arg), content_hash);
        let text = if self.keep_text {
            let shown = match served {
                Some(s) if s.len() > 80 => format!("{:?}… ({} bytes)", &s[..s.char_indices().nth(80).map_or(s.len(), |(i, _)| i)], s.len()),
                Some(s) => format!("{s:?}"),
                None => "absent".to_owned(),
            };
            format!("fs call {} {}({arg}) -> {shown}", st.calls, FILE_NAMES[what as usize])
        } else {
            String::new()
        };
        st.log.push((code, text));
    }

    fn absent(&self, st: &mut FsState, a: &Absent) -> bool {
        if self.faults.is_absent(a) {
            *st.absent_fired.entry(a.name()).or_insert(0) += 1;
            true
        } else {
            false
        }
    }

    fn is_online(st: &FsState, id: u32) -> bool {
        st.online.get(&id).copied().unwrap_or(false)
    }

    fn cgroup_name(&self) -> Option<&str> {
        match &self.m.cgroup {
            Cgroup::NoFile => None,
            Cgroup::V2 { name, .. }
            | Cgroup::V1 { name, .. }
            | Cgroup::NoCpuFiles { name }
            | Cgroup::V1Only { name, .. } => Some(name),
        }
    }

    fn check_name(&self, st: &mut FsState, asked: &str) -> bool {
        if self.cgroup_name() == Some(asked) {
            true
        } else {
            st.wrong_cgroup_name = Some(asked.to_owned());
            false
        }
    }
}

const FILE_NAMES: &[&str] = &[
    "cpuinfo",
    "cpu/possible",
    "cpu/online",
    "node/possible",
    "node/cpulist",
    "cpu/N/online",
    "proc/self/status",
    "proc/self/cgroup",
    "v1 cfs_quota_us",
    "v1 cfs_period_us",
    "v2 cpu.max",
];

impl SimFilesystem for SimFs {
    fn get_cpuinfo_contents(&self) -> String {
        let mut st = self.st.lock().expect("fs state");
        self.tick(&mut st);
        let listed: Vec<&Cpu> = self
            .m
            .cpus
            .iter()
            .filter(|c| Self::is_online(&st, c.id) || c.listed_if_offline)
            .collect();
        st.cpuinfo_reads += 1;
        if st.served_listing.is_none() {
            st.served_listing = Some(listed.iter().map(|c| c.id).collect());
        }
        let text = render_cpuinfo(&self.m, &listed);
        let served = Some(text);
        self.note(&mut st, 0, 0, &served);
        served.expect("just set")
    }

    fn get_possible_cpus_contents(&self) -> Option<String> {
        let mut st = self.st.lock().expect("fs state");
        self.tick(&mut st);
        let served = if self.absent(&mut st, &Absent::Possible) {
            None
        } else {
            Some(list_text(&self.m, 2, &self.m.possible) + "\n")
        };
        self.note(&mut st, 1, 0, &served);
        served
    }

    fn get_online_cpus_contents(&self) -> Option<String> {
        let mut st = self.st.lock().expect("fs state");
        self.tick(&mut st);
        let served = if self.absent(&mut st, &Absent::Online) {
            None
        } else {
            let set: Vec<u32> = self.m.cpus.iter().filter(|c| Self::is_online(&st, c.id)).map(|c| c.id).collect();
            Some(list_text(&self.m, 3, &set) + "\n")
        };
        self.note(&mut st, 2, 0, &served);
        served
    }

    fn get_numa_node_possible_contents(&self) -> Option<String> {
        let mut st = self.st.lock().expect("fs state");
        self.tick(&mut st);
        let served = match &self.m.nodes {
            NodeLayout::NoNodeDir => None,
            _ if self.absent(&mut st, &Absent::NodePossible) => None,
            NodeLayout::EmptyPossible => Some("\n".to_owned()),
            NodeLayout::Nodes(v) => {
                let ids: Vec<u32> = v.iter().map(|n| n.id).collect();
                Some(list_text(&self.m, 4, &ids) + "\n")
            }
        };
        self.note(&mut st, 3, 0, &served);
        served
    }

    fn get_numa_node_cpulist_contents(&self, node_index: u32) -> Option<String> {
        let mut st = self.st.lock().expect("fs state");
        self.tick(&mut st);
        let node = match &self.m.nodes {
            NodeLayout::Nodes(v) => v.iter().find(|n| n.id == node_index),
            _ => None,
        };
        let served = match node {
            Some(n) if n.dir && !self.absent(&mut st, &Absent::NodeCpulist(node_index)) => {
                let mut set: Vec<u32> = self
                    .m
                    .cpus
                    .iter()
                    .filter(|c| c.node == Some(n.id) && (Self::is_online(&st, c.id) || self.m.node_lists_offline))
                    .map(|c| c.id)
                    .collect();
                set.extend_from_slice(&n.extra);
                let set = sorted_dedup(set);
                Some(list_text(&self.m, mix(5, u64::from(node_index)), &set) + "\n")
            }
            _ => None,
        };
        self.note(&mut st, 4, u64::from(node_index), &served);
        served
    }

    fn get_cpu_online_contents(&self, cpu_index: u32) -> Option<String> {
        let mut st = self.st.lock().expect("fs state");
        self.tick(&mut st);
        st.per_cpu_online_reads += 1;
        let cpu = self.m.cpus.binary_search_by_key(&cpu_index, |c| c.id).ok().map(|i| &self.m.cpus[i]);
        let served = match cpu {
            Some(c) if c.online_file => {
                let online = Self::is_online(&st, c.id);
                if online && self.absent(&mut st, &Absent::CpuOnline) {
                    None
                } else {
                    Some(if online { "1\n".to_owned() } else { "0\n".to_owned() })
                }
            }
            _ => None,
        };
        self.note(&mut st, 5, u64::from(cpu_index), &served);
        served
    }

    fn get_proc_self_status_contents(&self) -> String {
        let mut st = self.st.lock().expect("fs state");
        self.tick(&mut st);
        let served = Some(render_status(&self.m));
        self.note(&mut st, 6, 0, &served);
        served.expect("just set")
    }

    fn get_proc_self_cgroup(&self) -> Option<String> {
        let mut st = self.st.lock().expect("fs state");
        self.tick(&mut st);
        let served = match render_proc_cgroup(&self.m.cgroup) {
            Some(_) if self.absent(&mut st, &Absent::ProcCgroup) => None,
            other => other,
        };
        self.note(&mut st, 7, 0, &served);
        served
    }

    fn get_v1_cgroup_cpu_quota(&self, cgroup_name: &str) -> Option<String> {
        let mut st = self.st.lock().expect("fs state");
        self.tick(&mut st);
        let served = match &self.m.cgroup {
            Cgroup::V1 { quota, .. } | Cgroup::V1Only { quota, .. }
                if self.check_name(&mut st, cgroup_name) && !self.absent(&mut st, &Absent::V1Quota) =>
            {
                Some(format!("{quota}\n"))
            }
            _ => None,
        };
        self.note(&mut st, 8, 0, &served);
        served
    }

    fn get_v1_cgroup_cpu_period(&self, cgroup_name: &str) -> Option<String> {
        let mut st = self.st.lock().expect("fs state");
        self.tick(&mut st);
        let served = match &self.m.cgroup {
            Cgroup::V1 { period, .. } | Cgroup::V1Only { period, .. }
                if self.check_name(&mut st, cgroup_name) && !self.absent(&mut st, &Absent::V1Period) =>
            {
                Some(format!("{period}\n"))
            }
            _ => None,
        };
        self.note(&mut st, 9, 0, &served);
        served
    }

    fn get_v2_cgroup_cpu_quota_and_period(&self, cgroup_name: &str) -> Option<String> {
        let mut st = self.st.lock().expect("fs state");
        self.tick(&mut st);
        let served = match &self.m.cgroup {
            Cgroup::V2 { limit, period_when_max, .. }
                if self.check_name(&mut st, cgroup_name) && !self.absent(&mut st, &Absent::V2CpuMax) =>
            {
                Some(match limit {
                    Some((q, p)) => format!("{q} {p}\n"),
                    None => format!("max {period_when_max}\n"),
                })
            }
            _ => None,
        };
        self.note(&mut st, 10, 0, &served);
        served
    }
}

// ------------------------------------------------------------------------------------------------
// Independent interpretation (oracle)
// ------------------------------------------------------------------------------------------------

#[derive(Clone, Debug, PartialEq)]
pub struct Expected {
    /// (processor id, memory region id), ascending by id.
    pub reported: Vec<(u32, u32)>,
    /// `Some` when the id space is published by `cpu/possible` (then the reported maximum must be
    /// exactly its largest id), otherwise the value the documented fallbacks lead to.
    pub max_processor_id: u32,
    pub max_processor_id_is_exact: bool,
    pub max_region_id: u32,
    /// `None`: no cgroup limit applies.
    pub quota: Option<(u64, u64)>,
    pub active_count: usize,
}

impl Expected {
    pub fn max_processor_time(&self) -> f64 {
        let count = self.reported.len() as f64;
        match self.quota {
            Some((q, p)) => count.min(q as f64 / p as f64),
            None => count,
        }
    }
}

/// What a correct reader must report for machine `m` when the files named in `faults.absent` are
/// missing and no hot-plug event fires. Computed from the description's sets, never from text.
pub fn interpret(m: &Machine, faults: &FaultPlan) -> Expected {
    let allowed: BTreeSet<u32> = m.allowed.iter().copied().collect();
    let nodes_served = matches!(m.nodes, NodeLayout::Nodes(_)) && !faults.is_absent(&Absent::NodePossible);
    let node_of = |c: &Cpu| -> u32 {
        if !nodes_served {
            return 0;
        }
        let NodeLayout::Nodes(v) = &m.nodes else { return 0 };
        match c.node {
            Some(n) => {
                let Some(node) = v.iter().find(|x| x.id == n) else { return 0 };
                let file = node.dir && !faults.is_absent(&Absent::NodeCpulist(n));
                if file && (c.online || m.node_lists_offline) { n } else { 0 }
            }
            None => 0,
        }
    };
    let mut reported = Vec::new();
    let mut enumerated_max: Option<u32> = None;
    for c in &m.cpus {
        let listed = c.online || c.listed_if_offline;
        if !listed || !allowed.contains(&c.id) {
            continue;
        }
        enumerated_max = Some(enumerated_max.map_or(c.id, |x| x.max(c.id)));
        // The per-processor file is authoritative; a processor without one is online.
        let file_served = c.online_file && !(c.online && faults.is_absent(&Absent::CpuOnline));
        let online_view = if file_served { c.online } else { true };
        if online_view {
            reported.push((c.id, node_of(c)));
        }
    }
    let online = m.online_set();
    let (max_processor_id, exact) = if !faults.is_absent(&Absent::Possible) {
        (*m.possible.last().expect("possible is never empty"), true)
    } else if !faults.is_absent(&Absent::Online) {
        (*online.last().expect("home is online"), false)
    } else {
        (enumerated_max.expect("home is listed and allowed"), false)
    };
    let max_region_id = if nodes_served { m.node_ids().into_iter().max().unwrap_or(0) } else { 0 };
    let quota = if faults.is_absent(&Absent::ProcCgroup) {
        None
    } else {
        match &m.cgroup {
            Cgroup::NoFile | Cgroup::NoCpuFiles { .. } => None,
            Cgroup::V2 { limit, .. } => {
                if faults.is_absent(&Absent::V2CpuMax) { None } else { *limit }
            }
            Cgroup::V1 { quota, period, .. } | Cgroup::V1Only { quota, period, .. } => {
                if faults.is_absent(&Absent::V1Quota) || faults.is_absent(&Absent::V1Period) || *quota < 0 {
                    None
                } else {
                    Some((*quota as u64, *period))
                }
            }
        }
    };
    let active_count = if faults.is_absent(&Absent::Online) { reported.len() } else { online.len() };
    Expected {
        reported,
        max_processor_id,
        max_processor_id_is_exact: exact,
        max_region_id,
        quota,
        active_count,
    }
}
