//! C11 — Linux hardware inventory equals what the kernel's text files describe.
//!
//! `MachineScenario`: a generated machine description is rendered into simulated `/proc`, `/sys`
//! files; the real Linux platform code (hook H3) reads them; the result is compared with an
//! independent interpretation of the same description. `CodecScenario`: the cpulist codec and
//! the mask-as-set clause (seeded generation of inputs to pure functions — not a simulation).

use std::collections::BTreeSet;
use std::sync::Arc;

use many_cpus_impl::SystemHardware;
use serde::{Deserialize, Serialize};
use simkit::{Ctx, Rng, Scenario, Violation, check, mix};

use crate::kernel::SimKernel;
use crate::machine::{
    Absent, Bogo, Cgroup, FaultPlan, GenOptions, Hotplug, Machine, Model, NodeLayout, SimFs, gen_machine, interpret,
    simple_machine,
};
use crate::util::{ListStyle, my_parse_cpulist, render_cpulist, runs_of, sorted_dedup};
use crate::{KEY_CGROUP_V1_ONLY, KEY_EMIT_OVERFLOW, KEY_HOTPLUG_MAX_ID, avoid};

// ------------------------------------------------------------------------------------------------
// Machine scenarios
// ------------------------------------------------------------------------------------------------

#[derive(Clone, Debug, Serialize, Deserialize)]
pub struct MachineScenario {
    pub machine: Machine,
    pub faults: FaultPlan,
}

fn gen_faults(rng: &mut Rng, m: &Machine) -> FaultPlan {
    let mut plan = FaultPlan::default();
    // Swarm: each kind is enabled independently for this run.
    let mut kinds = vec![
        Absent::Possible,
        Absent::Online,
        Absent::NodePossible,
        Absent::CpuOnline,
        Absent::ProcCgroup,
        Absent::V2CpuMax,
        Absent::V1Quota,
        Absent::V1Period,
    ];
    if let NodeLayout::Nodes(v) = &m.nodes {
        for n in v.iter().filter(|n| n.dir) {
            if rng.chance(1, 3) {
                kinds.push(Absent::NodeCpulist(n.id));
            }
        }
    }
    for k in kinds {
        if rng.chance(1, 5) {
            plan.absent.push(k);
        }
    }
    let pluggable: Vec<u32> = m.cpus.iter().filter(|c| c.online_file && c.id != m.home).map(|c| c.id).collect();
    let allowed: BTreeSet<u32> = m.allowed.iter().copied().collect();
    let listed_allowed = m.cpus.iter().filter(|c| (c.online || c.listed_if_offline) && allowed.contains(&c.id)).count();
    let horizon = 8 + m.node_count() as u64 + listed_allowed as u64;
    if !pluggable.is_empty() && rng.chance(2, 3) {
        for _ in 0..rng.range(1, 3) {
            plan.hotplug.push(Hotplug { at_call: rng.range(1, horizon), cpu: *rng.pick(&pluggable) });
        }
    }
    if plan.absent.is_empty() && plan.hotplug.is_empty() {
        plan.absent.push(Absent::Online);
    }
    // Known finding: with cpu/possible absent the id space falls back to cpu/online, which is read
    // after /proc/cpuinfo; a processor that goes offline in between is enumerated but lies beyond
    // the reported maximum (panic). Keep the two fault kinds apart while the key is avoided.
    if avoid(KEY_HOTPLUG_MAX_ID) && !plan.hotplug.is_empty() {
        plan.absent.retain(|a| *a != Absent::Possible);
    }
    plan.absent.sort();
    plan.absent.dedup();
    plan
}

impl Scenario for MachineScenario {
    fn generate(rng: &mut Rng, mode: &str) -> Self {
        let opts = GenOptions { max_possible: 1024, allow_v1_only: !avoid(KEY_CGROUP_V1_ONLY) };
        match mode {
            "strict" => Self { machine: gen_machine(rng, &opts), faults: FaultPlan::default() },
            "faulty" => {
                let machine = gen_machine(rng, &opts);
                let faults = gen_faults(rng, &machine);
                Self { machine, faults }
            }
            m if m == format!("known-{KEY_CGROUP_V1_ONLY}") => {
                // Directed: a legacy-only cgroup hierarchy (no `0::` line) with a cpu quota.
                let mut machine = gen_machine(rng, &GenOptions { max_possible: 16, allow_v1_only: true });
                let period = 100_000;
                machine.cgroup = Cgroup::V1Only {
                    name: "/docker/6a74f501e3b4".to_owned(),
                    quota: (period / 2) as i64,
                    period,
                };
                Self { machine, faults: FaultPlan::default() }
            }
            m if m == format!("known-{KEY_HOTPLUG_MAX_ID}") => {
                // Directed: no cpu/possible; the highest processor goes offline right after its own
                // `online` file was read, i.e. before cpu/online is read for the id space.
                let n = rng.range(2, 8) as u32;
                let cpus: Vec<(u32, u32)> = (0..n).map(|i| (i, 0)).collect();
                let all: Vec<u32> = (0..n).collect();
                let mut machine = simple_machine(n, &cpus, &all, 0);
                machine.nodes = NodeLayout::NoNodeDir;
                for c in &mut machine.cpus {
                    c.node = None;
                    c.online_file = c.id != 0;
                }
                machine.normalize();
                // calls: cpuinfo(1) node/possible(2) status(3) cpuN/online(4..3+n) possible(4+n) online(5+n)
                let faults = FaultPlan {
                    absent: vec![Absent::Possible],
                    hotplug: vec![Hotplug { at_call: u64::from(4 + n), cpu: n - 1 }],
                };
                Self { machine, faults }
            }
            other => panic!("harness-bug: unknown C11 machine mode {other}"),
        }
    }

    fn run(&self, ctx: &mut Ctx) -> Result<bool, Violation> {
        let m = &self.machine;
        let fs = Arc::new(SimFs::new(m.clone(), self.faults.clone(), ctx.keep_log));
        let default_aff: Vec<u32> = m
            .cpus
            .iter()
            .filter(|c| c.online && m.allowed.contains(&c.id))
            .map(|c| c.id)
            .collect();
        let kernel = Arc::new(SimKernel::new(128, default_aff, false, 0));

        // The real Linux platform code runs here: parsing, cross-referencing, id space, caching.
        // A panic escapes and is reported by simkit as `panic: …` — for a well-formed machine that
        // is exactly the "never cause a panic" clause.
        let built = std::panic::catch_unwind(std::panic::AssertUnwindSafe(|| {
            let hw = SystemHardware::verif_linux(fs.clone(), kernel.clone());
            let all = hw.all_processors();
            let mut reported: Vec<(u32, u32)> = all.iter().map(|p| (p.id(), p.memory_region_id())).collect();
            reported.sort_unstable();
            let max_pid = hw.max_processor_id();
            let max_rid = hw.max_memory_region_id();
            let quota_time = hw.resource_quota().max_processor_time();
            let active = hw.active_processor_count();
            let default_len = hw.processors().len();
            (reported, max_pid, max_rid, quota_time, active, default_len)
        }));

        // Merge the filesystem's call log into the run's event log (also for a panicking run).
        let (hotplug_fired, served_listing, cpuinfo_reads, wrong_name) = {
            let mut st = fs.st.lock().expect("fs state");
            for (code, text) in std::mem::take(&mut st.log) {
                ctx.event(code, || text);
            }
            for (name, n) in &st.absent_fired {
                for _ in 0..*n {
                    ctx.fault(name);
                }
            }
            for _ in &st.hotplug_fired {
                ctx.fault("hotplug_between_reads");
            }
            (st.hotplug_fired.clone(), st.served_listing.clone(), st.cpuinfo_reads, st.wrong_cgroup_name.clone())
        };
        let faults_fired = !ctx.faults.is_empty();

        let (reported, max_pid, max_rid, quota_time, active, default_len) = match built {
            Ok(v) => v,
            Err(payload) => std::panic::resume_unwind(payload),
        };
        ctx.event(
            mix(mix(reported.len() as u64, u64::from(max_pid)), mix(u64::from(max_rid), quota_time.to_bits())),
            || {
                format!(
                    "library: {} processors {:?}{} max_processor_id={max_pid} max_region_id={max_rid} \
                     max_processor_time={quota_time} active={active} default_set={default_len}",
                    reported.len(),
                    &reported[..reported.len().min(24)],
                    if reported.len() > 24 { "…" } else { "" }
                )
            },
        );
        for (id, region) in &reported {
            ctx.event(mix(u64::from(*id), u64::from(*region)), String::new);
        }
        if ctx.keep_log {
            ctx.log.retain(|l| !l.is_empty());
        }

        self.probes(ctx);

        // ---- clauses that hold under every fault kind ------------------------------------------
        let ids: Vec<u32> = reported.iter().map(|(i, _)| *i).collect();
        check!(
            sorted_dedup(ids.clone()) == ids,
            "duplicate-processor",
            "a processor id is reported twice: {ids:?}"
        );
        check!(!reported.is_empty(), "no-processors", "nothing reported");
        for (id, region) in &reported {
            check!(*id <= max_pid, "id-exceeds-max", "processor {id} > max_processor_id {max_pid}");
            check!(*region <= max_rid, "region-exceeds-max", "processor {id}: region {region} > max_memory_region_id {max_rid}");
            check!(
                m.allowed.binary_search(id).is_ok(),
                "reported-disallowed-processor",
                "processor {id} is reported but Cpus_allowed_list is {:?}",
                m.allowed
            );
        }
        check!(cpuinfo_reads == 1, "inventory-read-twice", "/proc/cpuinfo was read {cpuinfo_reads} times for one inventory");
        if let Some(name) = wrong_name {
            return Err(Violation::new(
                "wrong-cgroup-name",
                format!("a cgroup file was looked up under {name:?}, the process is in {:?}", m.cgroup),
            ));
        }
        let served_listing = served_listing.unwrap_or_default();
        for (id, _) in &reported {
            check!(
                served_listing.binary_search(id).is_ok(),
                "reported-unlisted-processor",
                "processor {id} is reported but the /proc/cpuinfo reading that was served listed {served_listing:?}"
            );
        }

        if !hotplug_fired.is_empty() {
            // Relaxed oracle (hot-plug fired): no panic, and the clauses above.
            ctx.probe("hotplug-relaxed-oracle");
            return Ok(true);
        }

        // ---- exact oracle: independent interpretation of the description ------------------------
        let want = interpret(m, &self.faults);
        for (id, _) in &reported {
            if want.reported.binary_search_by_key(id, |(w, _)| *w).is_err() {
                let c = m.cpus.iter().find(|c| c.id == *id);
                return Err(Violation::new(
                    "reported-offline-processor",
                    format!("processor {id} is reported although it is not online: {c:?}"),
                ));
            }
        }
        for (id, _) in &want.reported {
            check!(
                ids.binary_search(id).is_ok(),
                "missing-processor",
                "processor {id} is listed, online and allowed but is not reported (reported {ids:?})"
            );
        }
        for ((id, region), (_, wregion)) in reported.iter().zip(want.reported.iter()) {
            check!(
                region == wregion,
                "wrong-region",
                "processor {id}: reported region {region}, the node listing it is {wregion} (nodes {:?})",
                m.nodes
            );
        }
        if want.max_processor_id_is_exact {
            check!(
                max_pid == want.max_processor_id,
                "max-processor-id-mismatch",
                "max_processor_id {max_pid}, cpu/possible ends at {}",
                want.max_processor_id
            );
        } else {
            // Without cpu/possible the id space is whatever the remaining evidence supports: at
            // least the documented fallback (cpu/online, else the enumerated processors), never
            // more than what could possibly exist.
            let ceiling = *m.possible.last().expect("possible is never empty");
            check!(
                max_pid >= want.max_processor_id && max_pid <= ceiling,
                "max-processor-id-fallback-mismatch",
                "max_processor_id {max_pid}; without cpu/possible the evidence supports {}..={ceiling}",
                want.max_processor_id
            );
        }
        check!(
            max_rid == want.max_region_id,
            "max-region-id-mismatch",
            "max_memory_region_id {max_rid}, node/possible says {}",
            want.max_region_id
        );
        let want_time = want.max_processor_time();
        check!(
            (quota_time - want_time).abs() <= 1e-9 * want_time.abs().max(1.0),
            "quota-mismatch",
            "max_processor_time {quota_time}, expected min(count {}, quota {:?}) = {want_time}; cgroup {:?}",
            want.reported.len(),
            want.quota,
            m.cgroup
        );
        check!(
            active == want.active_count,
            "active-count-mismatch",
            "active_processor_count {active}, expected {}",
            want.active_count
        );
        let want_default = (want_time.floor() as usize).clamp(1, want.reported.len());
        check!(
            default_len == want_default,
            "default-set-ignores-quota",
            "processors() has {default_len} members, quota {want_time} over {} processors allows {want_default}",
            want.reported.len()
        );
        if want.quota.is_some() && want_time < want.reported.len() as f64 {
            ctx.probe("quota-below-count");
        }

        let online = m.online_set();
        Ok(m.node_count() >= 2 || faults_fired || online != m.possible)
    }

    fn shrink(&self) -> Vec<Self> {
        let mut out = Vec::new();
        for machine in self.machine.shrink() {
            let mut faults = self.faults.clone();
            faults.hotplug.retain(|h| machine.cpus.iter().any(|c| c.id == h.cpu && c.online_file && c.id != machine.home));
            faults.absent.retain(|a| match a {
                Absent::NodeCpulist(n) => machine.node_ids().contains(n),
                _ => true,
            });
            out.push(Self { machine, faults });
        }
        for absent in simkit::shrink::remove_chunks(&self.faults.absent) {
            out.push(Self { machine: self.machine.clone(), faults: FaultPlan { absent, hotplug: self.faults.hotplug.clone() } });
        }
        for hotplug in simkit::shrink::remove_chunks(&self.faults.hotplug) {
            out.push(Self { machine: self.machine.clone(), faults: FaultPlan { absent: self.faults.absent.clone(), hotplug } });
        }
        let size = self.size();
        out.retain(|c| c.size() < size);
        out
    }

    fn size(&self) -> usize {
        self.machine.size() + 3 * self.faults.absent.len() + 3 * self.faults.hotplug.len()
    }
}

impl MachineScenario {
    fn probes(&self, ctx: &mut Ctx) {
        let m = &self.machine;
        if m.possible.len() > 256 {
            ctx.probe("possible>256");
        }
        match &m.nodes {
            NodeLayout::NoNodeDir => ctx.probe("node-dir-missing"),
            NodeLayout::EmptyPossible => ctx.probe("node-possible-empty"),
            NodeLayout::Nodes(v) => {
                if v.len() >= 2 {
                    ctx.probe("nodes>=2");
                }
                if v.iter().any(|n| !n.dir) {
                    ctx.probe("node-without-directory");
                }
                if v.iter().any(|n| n.dir && !m.cpus.iter().any(|c| c.node == Some(n.id) && c.online)) {
                    ctx.probe("empty-node");
                }
                if v.iter().any(|n| !n.extra.is_empty()) {
                    ctx.probe("node-lists-id-cpuinfo-lacks");
                }
                if m.cpus.iter().any(|c| c.node.is_none() && c.online) {
                    ctx.probe("processor-in-no-node");
                }
                if v.iter().any(|n| n.id != 0) && !v.iter().any(|n| n.id == 0) {
                    ctx.probe("no-node-0");
                }
            }
        }
        if m.cpus.iter().any(|c| !c.online && c.listed_if_offline) {
            ctx.probe("offline-still-listed");
        }
        if m.cpus.iter().any(|c| !c.online && !c.listed_if_offline) {
            ctx.probe("offline-gap");
        }
        if m.cpus.iter().any(|c| c.online && !c.online_file) {
            ctx.probe("per-cpu-online-absent");
        }
        if m.cpus.iter().any(|c| c.bogomips == Bogo::Missing) {
            ctx.probe("bogomips-missing");
        }
        if m.cpus.iter().any(|c| c.bogomips == Bogo::Blank) {
            ctx.probe("bogomips-blank");
        }
        if m.cpus.iter().any(|c| matches!(c.model, Model::Arm { .. })) {
            ctx.probe("implementer/part-instead-of-model-name");
        }
        if m.cpuinfo.key_case != 0 {
            ctx.probe("key-casing-variant");
        }
        if m.cpuinfo.trailing_block {
            ctx.probe("trailing-machine-block");
        }
        let listed: Vec<u32> = m.cpus.iter().filter(|c| c.online || c.listed_if_offline).map(|c| c.id).collect();
        if listed.iter().any(|i| !m.allowed.contains(i)) {
            ctx.probe("listed-but-not-allowed");
        }
        if m.allowed.iter().any(|a| !listed.contains(a)) {
            ctx.probe("allowed-but-not-listed");
        }
        match &m.cgroup {
            Cgroup::NoFile => ctx.probe("cgroup-none"),
            Cgroup::V2 { limit: None, .. } => ctx.probe("cgroup-v2-max"),
            Cgroup::V2 { limit: Some(_), .. } => ctx.probe("cgroup-v2-quota-period"),
            Cgroup::V1 { quota, .. } if *quota < 0 => ctx.probe("cgroup-v1-unlimited"),
            Cgroup::V1 { .. } => ctx.probe("cgroup-v1-quota"),
            Cgroup::NoCpuFiles { .. } => ctx.probe("cgroup-without-cpu-files"),
            Cgroup::V1Only { .. } => ctx.probe("cgroup-v1-only"),
        }
        if let Cgroup::V2 { name, .. } | Cgroup::V1 { name, .. } = &m.cgroup {
            if name.matches('/').count() >= 2 {
                ctx.probe("cgroup-nested-name");
            }
        }
        if m.style_seed != 0 {
            ctx.probe("list-syntax-variants");
        }
    }
}

// ------------------------------------------------------------------------------------------------
// Codec scenarios (seeded generation for pure functions — not a simulation)
// ------------------------------------------------------------------------------------------------

#[derive(Clone, Debug, Serialize, Deserialize)]
pub struct MaskCase {
    /// Processors to pin to (all below `64 * min(words)`).
    pub ids: Vec<u32>,
    /// Kernel cpumask widths (in 64-bit words) under which the same set is written and read back.
    pub words: Vec<u32>,
    /// The machine's `possible` list ends at the highest id of the set instead of spanning the whole
    /// kernel cpumask (`nr_cpu_ids` is often larger than the number of possible processors).
    #[serde(default)]
    pub tight_possible: bool,
}

#[derive(Clone, Debug, Serialize, Deserialize)]
pub struct CodecScenario {
    /// Id collections handed to `emit` as they are (unsorted, with repeats).
    pub sets: Vec<Vec<u32>>,
    /// (set, style seed): rendered in a syntax variant and handed to `parse`.
    pub texts: Vec<(Vec<u32>, u64)>,
    /// Strings that need not be valid: `parse` must return (anything) without panicking.
    pub garbage: Vec<String>,
    pub mask: Option<MaskCase>,
}

fn has_overflow_trigger(set: &[u32]) -> bool {
    let s = sorted_dedup(set.to_vec());
    runs_of(&s).iter().any(|(a, b)| *b == u32::MAX && b - a >= 2)
}

fn gen_id_set(rng: &mut Rng) -> Vec<u32> {
    let mut v: Vec<u32> = Vec::new();
    let pieces = rng.range(0, 6);
    // Where the ids live: bottom, middle, top of the u32 range (biased to the top).
    for _ in 0..pieces {
        let anchor: u32 = match rng.weighted(&[4, 2, 1, 4]) {
            0 => rng.below(300) as u32,
            1 => rng.below(1 << 20) as u32,
            2 => rng.next_u64() as u32,
            _ => u32::MAX - rng.below(40) as u32,
        };
        let len = match rng.weighted(&[3, 3, 3, 1]) {
            0 => 1,
            1 => 2,
            2 => rng.range(3, 12),
            _ => rng.range(13, 300),
        } as u32;
        let stride = if rng.chance(1, 5) { rng.range(2, 5) as u32 } else { 1 };
        let mut x = anchor;
        for _ in 0..len {
            v.push(x);
            match x.checked_add(stride) {
                Some(n) => x = n,
                None => break,
            }
        }
        if rng.chance(1, 3) {
            // a run that ends exactly at the top
            let l = rng.range(1, 6) as u32;
            for k in 0..l {
                v.push(u32::MAX - k);
            }
        }
    }
    // repeats and disorder
    for _ in 0..rng.below(4) {
        if !v.is_empty() {
            let d = *rng.pick(&v);
            v.push(d);
        }
    }
    rng.shuffle(&mut v);
    v
}

fn strip_trigger(mut v: Vec<u32>) -> Vec<u32> {
    while has_overflow_trigger(&v) {
        v.retain(|x| *x != u32::MAX - 2);
    }
    v
}

impl Scenario for CodecScenario {
    fn generate(rng: &mut Rng, mode: &str) -> Self {
        if mode == format!("known-{KEY_EMIT_OVERFLOW}") {
            // Narrow generator: every set contains a run of >= 3 ids that ends at u32::MAX.
            let len = rng.range(3, 40) as u32;
            let mut set: Vec<u32> = (0..len).map(|k| u32::MAX - k).collect();
            if rng.bool() {
                set.extend((0..rng.below(5)).map(|_| rng.below(1000) as u32));
            }
            rng.shuffle(&mut set);
            return Self { sets: vec![set], texts: Vec::new(), garbage: Vec::new(), mask: None };
        }
        let n_sets = rng.range_usize(1, 6);
        let mut sets: Vec<Vec<u32>> = (0..n_sets).map(|_| gen_id_set(rng)).collect();
        if avoid(KEY_EMIT_OVERFLOW) {
            sets = sets.into_iter().map(strip_trigger).collect();
        }
        let texts = (0..rng.range_usize(1, 5))
            .map(|_| (sorted_dedup(gen_id_set(rng)), rng.next_u64()))
            .collect();
        let garbage = (0..rng.range_usize(0, 3))
            .map(|_| {
                // Small ids only: a mutation may join two numbers into one range, which `parse`
                // materialises id by id.
                let small: Vec<u32> = (0..rng.range(1, 12)).map(|_| rng.below(3000) as u32).collect();
                let base = render_cpulist(&sorted_dedup(small), ListStyle::Exotic, rng);
                let mut bytes: Vec<u8> = base.into_bytes();
                for _ in 0..rng.range(1, 3) {
                    let c = *rng.pick(b"-,:x 9/\n0");
                    let at = rng.below_usize(bytes.len() + 1);
                    if rng.bool() || bytes.is_empty() {
                        bytes.insert(at, c);
                    } else {
                        let at = at.min(bytes.len() - 1);
                        bytes[at] = c;
                    }
                }
                let text = String::from_utf8(bytes).expect("ascii");
                // `parse` materialises ranges id by id: keep every number small.
                let small_numbers = text
                    .split(|c: char| !c.is_ascii_digit())
                    .all(|n| n.len() <= 5);
                if small_numbers { text } else { String::from("1-3,x") }
            })
            .collect();
        let mask = rng.chance(1, 2).then(|| {
            let w1 = rng.range(1, 32) as u32;
            let w2 = rng.range(1, 32) as u32;
            let lo = w1.min(w2);
            let bits = lo * 64;
            let mut ids: Vec<u32> = Vec::new();
            for _ in 0..rng.range(1, 10) {
                ids.push(match rng.weighted(&[3, 2, 2]) {
                    0 => rng.below(u64::from(bits)) as u32,
                    1 => bits - 1 - rng.below(u64::from(bits.min(3))) as u32,
                    _ => (rng.below(u64::from(lo)) as u32) * 64 + *rng.pick(&[0_u32, 1, 31, 32, 62, 63]),
                });
            }
            let tight_possible = rng.chance(1, 3);
            if tight_possible && lo >= 2 && rng.bool() {
                // Highest possible id exactly on a word boundary: an id space of 64k+1 processors.
                let top = 64 * rng.range(1, u64::from(lo) - 1) as u32;
                ids.retain(|i| *i < top);
                ids.push(top);
            }
            MaskCase { ids: sorted_dedup(ids), words: vec![w1, w2], tight_possible }
        });
        Self { sets, texts, garbage, mask }
    }

    fn run(&self, ctx: &mut Ctx) -> Result<bool, Violation> {
        let mut nontrivial = false;
        for (i, set) in self.sets.iter().enumerate() {
            let want = sorted_dedup(set.clone());
            if has_overflow_trigger(set) {
                ctx.probe("emit-run>=3-ending-at-u32-max");
            }
            if want.last() == Some(&u32::MAX) {
                ctx.probe("emit-set-contains-u32-max");
            }
            let text = cpulist::emit(set.iter().copied());
            ctx.event(simkit::hash_str(&text), || format!("emit #{i} {} ids -> {text:?}", set.len()));
            let independent = my_parse_cpulist(&text);
            check!(
                independent.as_ref() == Ok(&want),
                "emit-wrong-set",
                "emit({set:?}) = {text:?}, which denotes {independent:?}, not {want:?}"
            );
            let parsed = cpulist::parse(&text);
            check!(
                parsed.as_ref().ok() == Some(&want),
                "round-trip-mismatch",
                "parse(emit(set)) = {parsed:?} for emitted {text:?}; want {want:?}"
            );
            check!(
                !text.contains(char::is_whitespace),
                "emit-whitespace",
                "emitted list contains whitespace: {text:?}"
            );
            nontrivial |= runs_of(&want).len() >= 2 || want.len() >= 3;
        }
        for (i, (set, seed)) in self.texts.iter().enumerate() {
            let mut rng = Rng::new(*seed);
            let style = ListStyle::pick(&mut rng);
            let text = render_cpulist(set, style, &mut rng);
            if text.contains(':') {
                ctx.probe("parse-stride-syntax");
            }
            let parsed = cpulist::parse(&text);
            ctx.event(simkit::hash_str(&text), || format!("parse #{i} {text:?} -> {} ids", set.len()));
            check!(
                parsed.as_ref().ok() == Some(set),
                "parse-wrong-set",
                "parse({text:?}) = {parsed:?}; the text denotes {set:?}"
            );
            // emit ∘ parse is idempotent on what it produced.
            if !(avoid(KEY_EMIT_OVERFLOW) && has_overflow_trigger(set)) {
                let again = cpulist::parse(&cpulist::emit(set.iter().copied()));
                check!(again.as_ref().ok() == Some(set), "round-trip-mismatch", "second round trip of {set:?} gave {again:?}");
            }
        }
        for g in &self.garbage {
            // Must not panic; the verdict is free.
            let r = cpulist::parse(g);
            let mine = my_parse_cpulist(g);
            ctx.event(simkit::hash_str(g), || format!("parse garbage {g:?} -> ok={}", r.is_ok()));
            if let (Ok(a), Ok(b)) = (&r, &mine) {
                check!(a == b, "parse-wrong-set", "parse({g:?}) = {a:?}, independent reading {b:?}");
                ctx.probe("mutated-text-still-valid");
            }
        }
        if let Some(mc) = &self.mask {
            nontrivial = true;
            self.run_mask_case(mc, ctx)?;
        }
        Ok(nontrivial)
    }

    fn shrink(&self) -> Vec<Self> {
        let mut out = Vec::new();
        for sets in simkit::shrink::remove_chunks(&self.sets) {
            out.push(Self { sets, ..self.clone() });
        }
        for texts in simkit::shrink::remove_chunks(&self.texts) {
            out.push(Self { texts, ..self.clone() });
        }
        for garbage in simkit::shrink::remove_chunks(&self.garbage) {
            out.push(Self { garbage, ..self.clone() });
        }
        if self.mask.is_some() {
            out.push(Self { mask: None, ..self.clone() });
        }
        for (i, s) in self.sets.iter().enumerate() {
            for smaller in simkit::shrink::remove_chunks(s) {
                let mut sets = self.sets.clone();
                sets[i] = smaller;
                out.push(Self { sets, ..self.clone() });
            }
        }
        for (i, (s, seed)) in self.texts.iter().enumerate() {
            for smaller in simkit::shrink::remove_chunks(s) {
                let mut texts = self.texts.clone();
                texts[i] = (smaller, *seed);
                out.push(Self { texts, ..self.clone() });
            }
        }
        if let Some(mc) = &self.mask {
            for ids in simkit::shrink::remove_chunks(&mc.ids) {
                if !ids.is_empty() {
                    out.push(Self { mask: Some(MaskCase { ids, words: mc.words.clone(), tight_possible: mc.tight_possible }), ..self.clone() });
                }
            }
        }
        let size = self.size();
        out.retain(|c| c.size() < size);
        out
    }

    fn size(&self) -> usize {
        self.sets.iter().map(|s| 1 + s.len()).sum::<usize>()
            + self.texts.iter().map(|(s, _)| 1 + s.len()).sum::<usize>()
            + self.garbage.len()
            + self.mask.as_ref().map_or(0, |m| 2 + m.ids.len())
    }
}

impl CodecScenario {
    /// "Masks behave as sets independent of their width": the same set is pinned and read back
    /// under two kernel cpumask widths; the bytes handed to the kernel decode to the set and the
    /// set read back is the set, whatever the width of either buffer.
    fn run_mask_case(&self, mc: &MaskCase, ctx: &mut Ctx) -> Result<(), Violation> {
        let mut answers: Vec<Vec<u32>> = Vec::new();
        for w in &mc.words {
            let bits = w * 64;
            let ids: Vec<u32> = mc.ids.iter().copied().filter(|i| *i < bits).collect();
            if ids.is_empty() {
                continue;
            }
            let cpus: Vec<(u32, u32)> = ids.iter().map(|i| (*i, 0)).collect();
            let possible_bits = if mc.tight_possible { ids.iter().copied().max().unwrap_or(0) + 1 } else { bits };
            let machine = simple_machine(possible_bits, &cpus, &ids, 0);
            let fs = Arc::new(SimFs::new(machine, FaultPlan::default(), false));
            let kernel = Arc::new(SimKernel::new((w * 8) as usize, ids.clone(), false, 0));
            let k2 = kernel.clone();
            let ids2 = ids.clone();
            // Runs on the calling thread: the simulated kernel keys its table by thread id and the
            // library's per-thread pin state for this instance is removed when the instance drops.
            let (set_calls, get_calls, back) = {
                let hw = SystemHardware::verif_linux(fs, k2.clone());
                let set = hw.all_processors().filter(|p| ids2.contains(&p.id())).expect("non-empty");
                set.pin_current_thread_to();
                let back = hw
                    .all_processors()
                    .to_builder()
                    .where_available_for_current_thread()
                    .take_all()
                    .map(|s| sorted_dedup(s.iter().map(|p| p.id()).collect()))
                    .unwrap_or_default();
                let rec = k2.rec(std::thread::current().id());
                (rec.set_calls, rec.get_calls, back)
            };
            ctx.event(mix(u64::from(*w), ids.len() as u64), || {
                format!("mask width {w} words: set {ids:?} -> kernel got {set_calls:?}, read back {back:?} after {get_calls:?}")
            });
            check!(set_calls.len() == 1, "mask-set-calls", "expected one sched_setaffinity, saw {set_calls:?}");
            check!(
                set_calls[0].1 == ids,
                "mask-not-the-set",
                "width {w} words: the bytes handed to the kernel decode to {:?}, pinned to {ids:?}",
                set_calls[0].1
            );
            check!(back == ids, "mask-readback-not-the-set", "width {w} words: read back {back:?}, affinity is {ids:?}");
            if get_calls.iter().any(|(_, ok)| !ok) {
                ctx.probe("mask-einval-retry");
                ctx.fault("einval_until_wide_enough");
            }
            if *w < 16 {
                ctx.probe("mask-kernel-narrower-than-buffer");
            }
            answers.push(back);
        }
        if mc.words.len() == 2 && answers.len() == 2 && mc.ids.iter().all(|i| *i < mc.words.iter().min().expect("2") * 64) {
            check!(answers[0] == answers[1], "mask-width-dependent", "same set, different widths: {answers:?}");
        }
        Ok(())
    }
}
