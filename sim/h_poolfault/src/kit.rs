//! The simulator-owned payload type (`Node`) whose destructor is a fault / re-entrancy seam, and
//! one uniform interface (`Kit`) over the nine pool types of `infinity_pool`.

use std::mem::MaybeUninit;
use std::panic::{AssertUnwindSafe, catch_unwind, resume_unwind};
use std::sync::{Arc, Mutex, PoisonError};

use infinity_pool::verif::PoolProbe;
use infinity_pool::{
    BlindPool, BlindPooled, BlindPooledMut, DropPolicy, LocalBlindPool, LocalBlindPooled, LocalBlindPooledMut,
    LocalOpaquePool, LocalPinnedPool, LocalPooled, LocalPooledMut, OpaquePool, PinnedPool, Pooled, PooledMut,
    RawBlindPool, RawBlindPooled, RawBlindPooledMut, RawOpaquePool, RawPinnedPool, RawPooled, RawPooledMut,
};

use crate::scen::{Access, Act, Shape};

/// Payload of every panic the fault plan injects (anything else that unwinds is the library's).
pub struct Injected {
    pub kind: &'static str,
    pub id: u32,
}

pub const CANARY_DEAD: u64 = 0xDEAD_DEAD_DEAD_DEAD;

pub fn canary(id: u32) -> u64 {
    (u64::from(id) + 1).wrapping_mul(0x9E37_79B9_7F4A_7C15) ^ 0x5EED_C0DE
}

/// State shared between the harness and every destructor (destructors cannot borrow the runner).
pub struct WorldInner<K: Kit> {
    pub keep_log: bool,
    /// Destructor runs per object id.
    pub drops: Vec<u16>,
    pub events: Vec<(u64, Option<String>)>,
    /// Handles of objects inserted from inside destructors: (id, pool, handle).
    pub inbox: Vec<(u32, u8, K::Uniq)>,
    pub fired: Vec<&'static str>,
}

pub struct World<K: Kit>(Mutex<WorldInner<K>>);

impl<K: Kit> World<K> {
    pub fn new(keep_log: bool) -> Self {
        Self(Mutex::new(WorldInner {
            keep_log,
            drops: Vec::new(),
            events: Vec::new(),
            inbox: Vec::new(),
            fired: Vec::new(),
        }))
    }

    pub fn with<R>(&self, f: impl FnOnce(&mut WorldInner<K>) -> R) -> R {
        let mut g = self.0.lock().unwrap_or_else(PoisonError::into_inner);
        f(&mut g)
    }

    pub fn ev(&self, code: u64, text: impl FnOnce() -> String) {
        self.with(|w| {
            let t = if w.keep_log { Some(text()) } else { None };
            w.events.push((code, t));
        });
    }

    pub fn fired(&self, kind: &'static str) {
        self.with(|w| w.fired.push(kind));
    }
}

pub enum Child<K: Kit> {
    U(u32, u8, K::Uniq),
    S(u32, u8, K::Shared),
}

impl<K: Kit> Child<K> {
    pub fn id(&self) -> u32 {
        match self {
            Child::U(id, ..) | Child::S(id, ..) => *id,
        }
    }
    pub fn pool(&self) -> u8 {
        match self {
            Child::U(_, p, _) | Child::S(_, p, _) => *p,
        }
    }
}

/// The pooled object. Everything it does in `Drop` is dictated by the scenario.
pub struct Node<K: Kit> {
    pub id: u32,
    pub pool: u8,
    pub canary: u64,
    pub armed: bool,
    pub world: Arc<World<K>>,
    /// Pool values (clones) used by the destructor's re-entrant actions, by pool index.
    pub pools: Vec<Option<K::Pool>>,
    pub acts: Vec<Act>,
    pub children: Vec<Child<K>>,
    /// A clone of the object's own pool that it merely owns.
    pub extra_pool: Option<K::Pool>,
}

impl<K: Kit> Node<K> {
    pub fn leaf(id: u32, pool: u8, world: &Arc<World<K>>) -> Self {
        world.with(|w| {
            if w.drops.len() <= id as usize {
                w.drops.resize(id as usize + 1, 0);
            }
        });
        Self {
            id,
            pool,
            canary: canary(id),
            armed: false,
            world: Arc::clone(world),
            pools: Vec::new(),
            acts: Vec::new(),
            children: Vec::new(),
            extra_pool: None,
        }
    }
}

impl<K: Kit> Drop for Node<K> {
    fn drop(&mut self) {
        let id = self.id;
        let world = Arc::clone(&self.world);
        world.with(|w| {
            if w.drops.len() <= id as usize {
                w.drops.resize(id as usize + 1, 0);
            }
            w.drops[id as usize] += 1;
            let t = if w.keep_log { Some(format!("  dtor of #{id} begins")) } else { None };
            w.events.push((0xD700 + u64::from(id), t));
        });
        self.canary = CANARY_DEAD;
        // Whatever the library does in response to a re-entrant call (e.g. panic on a poisoned
        // lock or a double borrow) must reach the harness as a classified panic of the top-level
        // operation, not as a process abort caused by a second panic while this destructor's
        // remaining fields are dropped: finish all the scripted work, then re-raise the first one.
        let mut first: Option<Box<dyn std::any::Any + Send>> = None;
        for act in std::mem::take(&mut self.acts) {
            let r = catch_unwind(AssertUnwindSafe(|| match act {
                Act::Query { pool } => {
                    if let Some(Some(p)) = self.pools.get(pool as usize) {
                        world.fired(if pool == self.pool { "reenter_len(dtor,same pool)" } else { "reenter_len(dtor,other pool)" });
                        let n = K::len(p);
                        let e = K::is_empty(p);
                        let c = K::capacity(p, 0);
                        world.ev(0xD800 + u64::from(pool), || {
                            format!("  dtor of #{id} queried pool {pool}: len {n} empty {e} cap {c}")
                        });
                    }
                }
                Act::Insert { pool, id: nid, lay } => {
                    if let Some(Some(p)) = self.pools.get_mut(pool as usize) {
                        world.fired(if pool == self.pool { "reenter_insert(dtor,same pool)" } else { "reenter_insert(dtor,other pool)" });
                        let node = Node::leaf(nid, pool, &world);
                        let h = K::insert(p, lay, node);
                        world.with(|w| w.inbox.push((nid, pool, h)));
                        world.ev(0xD900 + u64::from(nid), || format!("  dtor of #{id} inserted #{nid} into pool {pool}"));
                    }
                }
            }));
            if let Err(p) = r {
                first.get_or_insert(p);
            }
        }
        let own_pool = self.pool;
        for c in self.children.drain(..) {
            let (cid, cp) = (c.id(), c.pool());
            world.fired(if cp == own_pool { "reenter_drop_handle(dtor,same pool)" } else { "reenter_drop_handle(dtor,other pool)" });
            world.ev(0xDA00 + u64::from(cid), || format!("  dtor of #{id} drops its handle to #{cid}"));
            if let Err(p) = catch_unwind(AssertUnwindSafe(|| drop(c))) {
                first.get_or_insert(p);
            }
        }
        let pools = std::mem::take(&mut self.pools);
        let extra = self.extra_pool.take();
        if let Err(p) = catch_unwind(AssertUnwindSafe(|| {
            drop(pools);
            drop(extra);
        })) {
            first.get_or_insert(p);
        }
        if let Some(p) = first {
            world.ev(0xDC00 + u64::from(id), || format!("  dtor of #{id} re-raises a panic of a nested call"));
            resume_unwind(p);
        }
        if self.armed {
            world.fired("panic_in_drop");
            world.ev(0xDB00 + u64::from(id), || format!("  dtor of #{id} panics (injected)"));
            std::panic::panic_any(Injected { kind: "drop", id });
        }
    }
}

/// Second payload layout for the blind pools (a different `Layout`, hence a different inner pool).
#[allow(dead_code)]
pub struct Big<K: Kit> {
    pub node: Node<K>,
    pub pad: [u64; 5],
}

pub enum Two<A, B> {
    A(A),
    B(B),
}

pub enum It {
    /// `ExactSizeIterator::len()` before the first item.
    Start(usize),
    /// Address of the yielded object.
    Item(usize),
}

fn drive<I, T>(it: &mut I, dir: u8, f: &mut dyn FnMut(It))
where
    I: DoubleEndedIterator<Item = std::ptr::NonNull<T>> + ExactSizeIterator,
{
    f(It::Start(it.len()));
    let mut front = true;
    loop {
        let x = match dir {
            0 => it.next(),
            1 => it.next_back(),
            _ => {
                front = !front;
                if front { it.next_back() } else { it.next() }
            }
        };
        match x {
            Some(p) => f(It::Item(p.as_ptr() as usize)),
            None => break,
        }
    }
}

pub trait Kit: Sized + 'static {
    const ACCESS: Access;
    const SHAPE: Shape;
    type Pool: 'static;
    type Uniq: 'static;
    type Shared: 'static;

    fn new_pool(must_not_drop: bool) -> Self::Pool;
    fn clone_pool(p: &Self::Pool) -> Option<Self::Pool>;
    fn len(p: &Self::Pool) -> usize;
    fn is_empty(p: &Self::Pool) -> bool;
    fn capacity(p: &Self::Pool, lay: u8) -> usize;
    fn reserve(p: &mut Self::Pool, lay: u8, n: usize);
    fn shrink(p: &mut Self::Pool);
    fn insert(p: &mut Self::Pool, lay: u8, node: Node<Self>) -> Self::Uniq;
    /// `insert_with`; `f` runs inside the library's init closure and either panics or returns the
    /// value that is then written into the slot.
    fn insert_with(p: &mut Self::Pool, lay: u8, f: &mut dyn FnMut() -> Node<Self>) -> Self::Uniq;
    fn node_u(u: &Self::Uniq) -> &Node<Self>;
    fn node_s(s: &Self::Shared) -> &Node<Self>;
    fn addr_u(u: &Self::Uniq) -> usize;
    fn addr_s(s: &Self::Shared) -> usize;
    fn into_shared(u: Self::Uniq) -> Self::Shared;
    fn clone_shared(s: &Self::Shared) -> Self::Shared;
    fn drop_u(p: Option<&mut Self::Pool>, u: Self::Uniq);
    fn drop_s(p: Option<&mut Self::Pool>, s: Self::Shared);
    fn take_out(p: Option<&mut Self::Pool>, u: Self::Uniq) -> Node<Self>;
    /// Returns false if the pool type has no iteration.
    fn iterate(p: &Self::Pool, dir: u8, f: &mut dyn FnMut(It)) -> bool;
    fn probe(p: &Self::Pool) -> Option<PoolProbe>;
}

// ------------------------------------------------------------------------------------------
// Managed (Arc/Mutex) and local (Rc/RefCell) pools share their API shape.
// ------------------------------------------------------------------------------------------

macro_rules! rc_common {
    () => {
        fn clone_pool(p: &Self::Pool) -> Option<Self::Pool> {
            Some(p.clone())
        }
        fn len(p: &Self::Pool) -> usize {
            p.len()
        }
        fn is_empty(p: &Self::Pool) -> bool {
            p.is_empty()
        }
        fn shrink(p: &mut Self::Pool) {
            p.shrink_to_fit();
        }
    };
}

macro_rules! rc_single_handles {
    () => {
        fn node_u(u: &Self::Uniq) -> &Node<Self> {
            u
        }
        fn node_s(s: &Self::Shared) -> &Node<Self> {
            s
        }
        fn addr_u(u: &Self::Uniq) -> usize {
            u.ptr().as_ptr() as usize
        }
        fn addr_s(s: &Self::Shared) -> usize {
            s.ptr().as_ptr() as usize
        }
        fn into_shared(u: Self::Uniq) -> Self::Shared {
            u.into_shared()
        }
        fn clone_shared(s: &Self::Shared) -> Self::Shared {
            s.clone()
        }
        fn drop_u(_p: Option<&mut Self::Pool>, u: Self::Uniq) {
            drop(u);
        }
        fn drop_s(_p: Option<&mut Self::Pool>, s: Self::Shared) {
            drop(s);
        }
        fn take_out(_p: Option<&mut Self::Pool>, u: Self::Uniq) -> Node<Self> {
            u.into_inner()
        }
        fn capacity(p: &Self::Pool, _lay: u8) -> usize {
            p.capacity()
        }
        fn reserve(p: &mut Self::Pool, _lay: u8, n: usize) {
            p.reserve(n);
        }
        fn iterate(p: &Self::Pool, dir: u8, f: &mut dyn FnMut(It)) -> bool {
            p.with_iter(|mut it| drive(&mut it, dir, f));
            true
        }
        fn probe(p: &Self::Pool) -> Option<PoolProbe> {
            Some(p.verif_probe())
        }
    };
}

macro_rules! rc_opaque {
    ($name:ident, $access:expr, $pool:ident, $uniq:ident, $shared:ident) => {
        pub struct $name;
        impl Kit for $name {
            const ACCESS: Access = $access;
            const SHAPE: Shape = Shape::Opaque;
            type Pool = $pool;
            type Uniq = $uniq<Node<Self>>;
            type Shared = $shared<Node<Self>>;
            fn new_pool(_mnd: bool) -> Self::Pool {
                $pool::with_layout_of::<Node<Self>>()
            }
            rc_common!();
            rc_single_handles!();
            fn insert(p: &mut Self::Pool, _lay: u8, node: Node<Self>) -> Self::Uniq {
                p.insert(node)
            }
            fn insert_with(p: &mut Self::Pool, _lay: u8, f: &mut dyn FnMut() -> Node<Self>) -> Self::Uniq {
                // SAFETY: the closure fully initialises the value before returning.
                unsafe {
                    p.insert_with(|u: &mut MaybeUninit<Node<Self>>| {
                        u.write(f());
                    })
                }
            }
        }
    };
}

macro_rules! rc_pinned {
    ($name:ident, $access:expr, $pool:ident, $uniq:ident, $shared:ident) => {
        pub struct $name;
        impl Kit for $name {
            const ACCESS: Access = $access;
            const SHAPE: Shape = Shape::Pinned;
            type Pool = $pool<Node<Self>>;
            type Uniq = $uniq<Node<Self>>;
            type Shared = $shared<Node<Self>>;
            fn new_pool(_mnd: bool) -> Self::Pool {
                $pool::<Node<Self>>::new()
            }
            rc_common!();
            rc_single_handles!();
            fn insert(p: &mut Self::Pool, _lay: u8, node: Node<Self>) -> Self::Uniq {
                p.insert(node)
            }
            fn insert_with(p: &mut Self::Pool, _lay: u8, f: &mut dyn FnMut() -> Node<Self>) -> Self::Uniq {
                // SAFETY: the closure fully initialises the value before returning.
                unsafe {
                    p.insert_with(|u: &mut MaybeUninit<Node<Self>>| {
                        u.write(f());
                    })
                }
            }
        }
    };
}

macro_rules! rc_blind {
    ($name:ident, $access:expr, $pool:ident, $uniq:ident, $shared:ident) => {
        pub struct $name;
        impl Kit for $name {
            const ACCESS: Access = $access;
            const SHAPE: Shape = Shape::Blind;
            type Pool = $pool;
            type Uniq = Two<$uniq<Node<Self>>, $uniq<Big<Self>>>;
            type Shared = Two<$shared<Node<Self>>, $shared<Big<Self>>>;
            fn new_pool(_mnd: bool) -> Self::Pool {
                $pool::new()
            }
            rc_common!();
            fn capacity(p: &Self::Pool, lay: u8) -> usize {
                if lay == 0 { p.capacity_for::<Node<Self>>() } else { p.capacity_for::<Big<Self>>() }
            }
            fn reserve(p: &mut Self::Pool, lay: u8, n: usize) {
                if lay == 0 { p.reserve_for::<Node<Self>>(n) } else { p.reserve_for::<Big<Self>>(n) }
            }
            fn insert(p: &mut Self::Pool, lay: u8, node: Node<Self>) -> Self::Uniq {
                if lay == 0 { Two::A(p.insert(node)) } else { Two::B(p.insert(Big { node, pad: [7; 5] })) }
            }
            fn insert_with(p: &mut Self::Pool, lay: u8, f: &mut dyn FnMut() -> Node<Self>) -> Self::Uniq {
                // SAFETY: the closures fully initialise the value before returning.
                unsafe {
                    if lay == 0 {
                        Two::A(p.insert_with(|u: &mut MaybeUninit<Node<Self>>| {
                            u.write(f());
                        }))
                    } else {
                        Two::B(p.insert_with(|u: &mut MaybeUninit<Big<Self>>| {
                            u.write(Big { node: f(), pad: [7; 5] });
                        }))
                    }
                }
            }
            fn node_u(u: &Self::Uniq) -> &Node<Self> {
                match u {
                    Two::A(h) => h,
                    Two::B(h) => &h.node,
                }
            }
            fn node_s(s: &Self::Shared) -> &Node<Self> {
                match s {
                    Two::A(h) => h,
                    Two::B(h) => &h.node,
                }
            }
            fn addr_u(u: &Self::Uniq) -> usize {
                match u {
                    Two::A(h) => h.ptr().as_ptr() as usize,
                    Two::B(h) => h.ptr().as_ptr() as usize,
                }
            }
            fn addr_s(s: &Self::Shared) -> usize {
                match s {
                    Two::A(h) => h.ptr().as_ptr() as usize,
                    Two::B(h) => h.ptr().as_ptr() as usize,
                }
            }
            fn into_shared(u: Self::Uniq) -> Self::Shared {
                match u {
                    Two::A(h) => Two::A(h.into_shared()),
                    Two::B(h) => Two::B(h.into_shared()),
                }
            }
            fn clone_shared(s: &Self::Shared) -> Self::Shared {
                match s {
                    Two::A(h) => Two::A(h.clone()),
                    Two::B(h) => Two::B(h.clone()),
                }
            }
            fn drop_u(_p: Option<&mut Self::Pool>, u: Self::Uniq) {
                drop(u);
            }
            fn drop_s(_p: Option<&mut Self::Pool>, s: Self::Shared) {
                drop(s);
            }
            fn take_out(_p: Option<&mut Self::Pool>, u: Self::Uniq) -> Node<Self> {
                match u {
                    Two::A(h) => h.into_inner(),
                    Two::B(h) => h.into_inner().node,
                }
            }
            fn iterate(_p: &Self::Pool, _dir: u8, _f: &mut dyn FnMut(It)) -> bool {
                false
            }
            fn probe(_p: &Self::Pool) -> Option<PoolProbe> {
                None
            }
        }
    };
}

rc_opaque!(ManagedOpaque, Access::Managed, OpaquePool, PooledMut, Pooled);
rc_opaque!(LocalOpaque, Access::Local, LocalOpaquePool, LocalPooledMut, LocalPooled);
rc_pinned!(ManagedPinned, Access::Managed, PinnedPool, PooledMut, Pooled);
rc_pinned!(LocalPinned, Access::Local, LocalPinnedPool, LocalPooledMut, LocalPooled);
rc_blind!(ManagedBlind, Access::Managed, BlindPool, BlindPooledMut, BlindPooled);
rc_blind!(LocalBlind, Access::Local, LocalBlindPool, LocalBlindPooledMut, LocalBlindPooled);

// ------------------------------------------------------------------------------------------
// Raw pools: handles are inert fat pointers, removal is explicit and unsafe.
// ------------------------------------------------------------------------------------------

fn policy(mnd: bool) -> DropPolicy {
    if mnd { DropPolicy::MustNotDropContents } else { DropPolicy::MayDropContents }
}

macro_rules! raw_single {
    () => {
        fn clone_pool(_p: &Self::Pool) -> Option<Self::Pool> {
            None
        }
        fn len(p: &Self::Pool) -> usize {
            p.len()
        }
        fn is_empty(p: &Self::Pool) -> bool {
            p.is_empty()
        }
        fn capacity(p: &Self::Pool, _lay: u8) -> usize {
            p.capacity()
        }
        fn reserve(p: &mut Self::Pool, _lay: u8, n: usize) {
            p.reserve(n);
        }
        fn shrink(p: &mut Self::Pool) {
            p.shrink_to_fit();
        }
        fn insert(p: &mut Self::Pool, _lay: u8, node: Node<Self>) -> Self::Uniq {
            p.insert(node)
        }
        fn insert_with(p: &mut Self::Pool, _lay: u8, f: &mut dyn FnMut() -> Node<Self>) -> Self::Uniq {
            // SAFETY: the closure fully initialises the value before returning.
            unsafe {
                p.insert_with(|u: &mut MaybeUninit<Node<Self>>| {
                    u.write(f());
                })
            }
        }
        fn node_u(u: &Self::Uniq) -> &Node<Self> {
            // SAFETY: the harness only dereferences handles of objects its model says are alive,
            // and the pool outlives them.
            unsafe { u.as_ref() }
        }
        fn node_s(s: &Self::Shared) -> &Node<Self> {
            // SAFETY: as above.
            unsafe { s.as_ref() }
        }
        fn addr_u(u: &Self::Uniq) -> usize {
            u.ptr().as_ptr() as usize
        }
        fn addr_s(s: &Self::Shared) -> usize {
            s.ptr().as_ptr() as usize
        }
        fn into_shared(u: Self::Uniq) -> Self::Shared {
            u.into_shared()
        }
        fn clone_shared(s: &Self::Shared) -> Self::Shared {
            *s
        }
        fn drop_u(p: Option<&mut Self::Pool>, u: Self::Uniq) {
            // SAFETY: the model guarantees the object is present in this pool.
            unsafe { p.expect("raw pool present").remove(u) }
        }
        fn drop_s(p: Option<&mut Self::Pool>, s: Self::Shared) {
            // SAFETY: the model guarantees the object is present in this pool.
            unsafe { p.expect("raw pool present").remove(s) }
        }
        fn take_out(p: Option<&mut Self::Pool>, u: Self::Uniq) -> Node<Self> {
            // SAFETY: the model guarantees the object is present in this pool.
            unsafe { p.expect("raw pool present").remove_unpin(u) }
        }
        fn iterate(p: &Self::Pool, dir: u8, f: &mut dyn FnMut(It)) -> bool {
            let mut it = p.iter();
            drive(&mut it, dir, f);
            true
        }
        fn probe(p: &Self::Pool) -> Option<PoolProbe> {
            Some(p.verif_probe())
        }
    };
}

pub struct RawOpaque;
impl Kit for RawOpaque {
    const ACCESS: Access = Access::Raw;
    const SHAPE: Shape = Shape::Opaque;
    type Pool = RawOpaquePool;
    type Uniq = RawPooledMut<Node<Self>>;
    type Shared = RawPooled<Node<Self>>;
    fn new_pool(mnd: bool) -> Self::Pool {
        RawOpaquePool::builder()
            .layout_of::<Node<Self>>()
            .drop_policy(policy(mnd))
            .build()
    }
    raw_single!();
}

pub struct RawPinned;
impl Kit for RawPinned {
    const ACCESS: Access = Access::Raw;
    const SHAPE: Shape = Shape::Pinned;
    type Pool = RawPinnedPool<Node<Self>>;
    type Uniq = RawPooledMut<Node<Self>>;
    type Shared = RawPooled<Node<Self>>;
    fn new_pool(mnd: bool) -> Self::Pool {
        RawPinnedPool::<Node<Self>>::builder().drop_policy(policy(mnd)).build()
    }
    raw_single!();
}

pub struct RawBlind;
impl Kit for RawBlind {
    const ACCESS: Access = Access::Raw;
    const SHAPE: Shape = Shape::Blind;
    type Pool = RawBlindPool;
    type Uniq = Two<RawBlindPooledMut<Node<Self>>, RawBlindPooledMut<Big<Self>>>;
    type Shared = Two<RawBlindPooled<Node<Self>>, RawBlindPooled<Big<Self>>>;
    fn new_pool(mnd: bool) -> Self::Pool {
        RawBlindPool::builder().drop_policy(policy(mnd)).build()
    }
    fn clone_pool(_p: &Self::Pool) -> Option<Self::Pool> {
        None
    }
    fn len(p: &Self::Pool) -> usize {
        p.len()
    }
    fn is_empty(p: &Self::Pool) -> bool {
        p.is_empty()
    }
    fn capacity(p: &Self::Pool, lay: u8) -> usize {
        if lay == 0 { p.capacity_for::<Node<Self>>() } else { p.capacity_for::<Big<Self>>() }
    }
    fn reserve(p: &mut Self::Pool, lay: u8, n: usize) {
        if lay == 0 { p.reserve_for::<Node<Self>>(n) } else { p.reserve_for::<Big<Self>>(n) }
    }
    fn shrink(p: &mut Self::Pool) {
        p.shrink_to_fit();
    }
    fn insert(p: &mut Self::Pool, lay: u8, node: Node<Self>) -> Self::Uniq {
        if lay == 0 { Two::A(p.insert(node)) } else { Two::B(p.insert(Big { node, pad: [7; 5] })) }
    }
    fn insert_with(p: &mut Self::Pool, lay: u8, f: &mut dyn FnMut() -> Node<Self>) -> Self::Uniq {
        // SAFETY: the closures fully initialise the value before returning.
        unsafe {
            if lay == 0 {
                Two::A(p.insert_with(|u: &mut MaybeUninit<Node<Self>>| {
                    u.write(f());
                }))
            } else {
                Two::B(p.insert_with(|u: &mut MaybeUninit<Big<Self>>| {
                    u.write(Big { node: f(), pad: [7; 5] });
                }))
            }
        }
    }
    fn node_u(u: &Self::Uniq) -> &Node<Self> {
        // SAFETY: the harness only dereferences handles of objects its model says are alive.
        unsafe {
            match u {
                Two::A(h) => h.as_ref(),
                Two::B(h) => &h.as_ref().node,
            }
        }
    }
    fn node_s(s: &Self::Shared) -> &Node<Self> {
        // SAFETY: as above.
        unsafe {
            match s {
                Two::A(h) => h.as_ref(),
                Two::B(h) => &h.as_ref().node,
            }
        }
    }
    fn addr_u(u: &Self::Uniq) -> usize {
        match u {
            Two::A(h) => h.ptr().as_ptr() as usize,
            Two::B(h) => h.ptr().as_ptr() as usize,
        }
    }
    fn addr_s(s: &Self::Shared) -> usize {
        match s {
            Two::A(h) => h.ptr().as_ptr() as usize,
            Two::B(h) => h.ptr().as_ptr() as usize,
        }
    }
    fn into_shared(u: Self::Uniq) -> Self::Shared {
        match u {
            Two::A(h) => Two::A(h.into_shared()),
            Two::B(h) => Two::B(h.into_shared()),
        }
    }
    fn clone_shared(s: &Self::Shared) -> Self::Shared {
        match s {
            Two::A(h) => Two::A(*h),
            Two::B(h) => Two::B(*h),
        }
    }
    fn drop_u(p: Option<&mut Self::Pool>, u: Self::Uniq) {
        let p = p.expect("raw pool present");
        // SAFETY: the model guarantees the object is present in this pool.
        unsafe {
            match u {
                Two::A(h) => p.remove(h),
                Two::B(h) => p.remove(h),
            }
        }
    }
    fn drop_s(p: Option<&mut Self::Pool>, s: Self::Shared) {
        let p = p.expect("raw pool present");
        // SAFETY: the model guarantees the object is present in this pool.
        unsafe {
            match s {
                Two::A(h) => p.remove(h),
                Two::B(h) => p.remove(h),
            }
        }
    }
    fn take_out(p: Option<&mut Self::Pool>, u: Self::Uniq) -> Node<Self> {
        let p = p.expect("raw pool present");
        // SAFETY: the model guarantees the object is present in this pool.
        unsafe {
            match u {
                Two::A(h) => p.remove_unpin(h),
                Two::B(h) => p.remove_unpin(h).node,
            }
        }
    }
    fn iterate(_p: &Self::Pool, _dir: u8, _f: &mut dyn FnMut(It)) -> bool {
        false
    }
    fn probe(_p: &Self::Pool) -> Option<PoolProbe> {
        None
    }
}
