//! Executes a scenario against the real pools and evaluates the C04 oracle after every
//! operation. The whole run happens on one coordinator thread so that a self-deadlock of the
//! library is observed by the main thread as a blocked operation (class `hang`) instead of
//! freezing the process; under Miri the interpreter reports the deadlock exactly.

use std::collections::{BTreeMap, BTreeSet};
use std::panic::{AssertUnwindSafe, catch_unwind, resume_unwind};
use std::sync::{Arc, Mutex, PoisonError};

use simkit::coord::{Coordinator, ExecError};
use simkit::{Ctx, Violation, hash_str, mix};

use crate::kit::{self, CANARY_DEAD, Child, Injected, It, Kit, Node, World, canary};
use crate::model::{Effects, Expect, Model};
use crate::scen::{Access, CAct, Op, PoolScenario, Shape, Spec};

/// What the worker thread hands back to the main thread.
pub struct Outcome {
    pub result: Result<bool, Violation>,
    pub ctx: Ctx,
}

const OP_TIMEOUT_S: u64 = 5;

pub fn run_scenario(sc: &PoolScenario, ctx: &mut Ctx) -> Result<bool, Violation> {
    let progress: Arc<Mutex<(usize, &'static str)>> = Arc::new(Mutex::new((usize::MAX, "start")));
    let keep_log = ctx.keep_log;
    // Only scenarios that are allowed to contain a re-entrancy trigger can self-deadlock by
    // design; they run on a coordinator thread so that the block becomes a `hang` violation of
    // this run. Everything else runs inline (a hang there is caught by the batch watchdog).
    let r = if sc.allow.re_dtor || sc.allow.re_closure {
        let mut coord = Coordinator::new(1);
        coord.op_timeout = std::time::Duration::from_secs(OP_TIMEOUT_S);
        let sc2 = sc.clone();
        let prog2 = Arc::clone(&progress);
        coord.exec(0, move || dispatch(&sc2, keep_log, &prog2))
    } else {
        Ok(dispatch(sc, keep_log, &progress))
    };
    match r {
        Ok(out) => {
            ctx.absorb_counts(&out.ctx);
            ctx.trace_hash = mix(ctx.trace_hash, out.ctx.trace_hash);
            ctx.log.extend(out.ctx.log);
            out.result
        }
        Err(ExecError::Blocked) => {
            let (idx, phase) = *progress.lock().unwrap_or_else(PoisonError::into_inner);
            let at = match sc.ops.get(idx) {
                Some(op) => format!("{phase} op {idx}: {op:?}"),
                None => format!("{phase} (final teardown)"),
            };
            ctx.event_str(&format!("BLOCKED in: {at}"));
            Err(Violation::new(
                "hang",
                format!("operation did not return within {OP_TIMEOUT_S} s under a one-runner schedule (self-deadlock): {at}"),
            ))
        }
        Err(ExecError::Panicked(msg)) => Err(Violation::new("harness-panic", msg)),
        Err(ExecError::Dead) => Err(Violation::new("harness-panic", "worker thread died".to_owned())),
    }
}

fn dispatch(sc: &PoolScenario, keep_log: bool, progress: &Arc<Mutex<(usize, &'static str)>>) -> Outcome {
    use Access::{Local, Managed, Raw};
    use Shape::{Blind, Opaque, Pinned};
    match (sc.access, sc.shape) {
        (Raw, Opaque) => run_kit::<kit::RawOpaque>(sc, keep_log, progress),
        (Raw, Pinned) => run_kit::<kit::RawPinned>(sc, keep_log, progress),
        (Raw, Blind) => run_kit::<kit::RawBlind>(sc, keep_log, progress),
        (Local, Opaque) => run_kit::<kit::LocalOpaque>(sc, keep_log, progress),
        (Local, Pinned) => run_kit::<kit::LocalPinned>(sc, keep_log, progress),
        (Local, Blind) => run_kit::<kit::LocalBlind>(sc, keep_log, progress),
        (Managed, Opaque) => run_kit::<kit::ManagedOpaque>(sc, keep_log, progress),
        (Managed, Pinned) => run_kit::<kit::ManagedPinned>(sc, keep_log, progress),
        (Managed, Blind) => run_kit::<kit::ManagedBlind>(sc, keep_log, progress),
    }
}

fn run_kit<K: Kit>(sc: &PoolScenario, keep_log: bool, progress: &Arc<Mutex<(usize, &'static str)>>) -> Outcome {
    infinity_pool::verif::set_slab_capacity_override(sc.slab_cap);
    let mut r = Runner::<K>::new(sc, keep_log, Arc::clone(progress));
    let result = r.run_all(&sc.ops);
    infinity_pool::verif::set_slab_capacity_override(0);
    let ctx = std::mem::take(&mut r.ctx);
    if result.is_err() {
        // The pools may be poisoned / inconsistent: dropping handles now could panic or block.
        std::mem::forget(r);
    }
    Outcome { result, ctx }
}

/// Index of the operation being executed (`usize::MAX` = an operation of the final teardown).
#[derive(Clone, Copy)]
struct Ix(usize);

impl std::fmt::Display for Ix {
    fn fmt(&self, f: &mut std::fmt::Formatter<'_>) -> std::fmt::Result {
        if self.0 == usize::MAX { f.write_str("(final teardown)") } else { write!(f, "{}", self.0) }
    }
}

enum Outcome1 {
    Returned,
    Injected(&'static str, u32),
    Other(String),
}

struct Runner<K: Kit> {
    sc: PoolScenario,
    ctx: Ctx,
    model: Model,
    world: Arc<World<K>>,
    pools: Vec<Option<K::Pool>>,
    clones: Vec<Vec<K::Pool>>,
    uniq: BTreeMap<u32, K::Uniq>,
    shared: BTreeMap<u32, Vec<K::Shared>>,
    /// Address of every live object, recorded when the harness first saw its handle.
    addr: BTreeMap<u32, usize>,
    /// Objects the harness deliberately leaked (no legal way to destroy them in this mode).
    leaked: BTreeSet<u32>,
    pending: Option<Violation>,
    op_mutated: bool,
    faults: u32,
    checked_after_fault: u32,
    best_after: u32,
    progress: Arc<Mutex<(usize, &'static str)>>,
    op_index: usize,
}

fn kind_name(a: Access, s: Shape) -> String {
    format!("{a:?}{s:?}")
}

impl<K: Kit> Runner<K> {
    fn new(sc: &PoolScenario, keep_log: bool, progress: Arc<Mutex<(usize, &'static str)>>) -> Self {
        let n = if sc.two_pools { 2 } else { 1 };
        let model = Model::new(sc.access, sc.shape, sc.slab_cap, sc.must_not_drop, sc.two_pools);
        let mnd = sc.must_not_drop && K::ACCESS == Access::Raw;
        Self {
            sc: PoolScenario {
                ops: Vec::new(),
                ..sc.clone()
            },
            ctx: Ctx::new(keep_log),
            model,
            world: Arc::new(World::new(keep_log)),
            pools: (0..n).map(|_| Some(K::new_pool(mnd))).collect(),
            clones: (0..n).map(|_| Vec::new()).collect(),
            uniq: BTreeMap::new(),
            shared: BTreeMap::new(),
            addr: BTreeMap::new(),
            leaked: BTreeSet::new(),
            pending: None,
            op_mutated: false,
            faults: 0,
            checked_after_fault: 0,
            best_after: 0,
            progress,
            op_index: 0,
        }
    }

    fn set_progress(&self, phase: &'static str) {
        let mut g = self.progress.lock().unwrap_or_else(PoisonError::into_inner);
        *g = (self.op_index, phase);
    }

    fn run_all(&mut self, ops: &[Op]) -> Result<bool, Violation> {
        let sc = &self.sc;
        let head = format!(
            "{} slab_cap={} pools={} must_not_drop={}",
            kind_name(sc.access, sc.shape),
            sc.slab_cap,
            self.pools.len(),
            sc.must_not_drop
        );
        self.ctx.event_str(&head);
        self.ctx.probe(&format!("kind:{}", kind_name(sc.access, sc.shape)));
        for (i, op) in ops.iter().enumerate() {
            self.op_index = i;
            self.step(op)?;
        }
        self.finish()?;
        Ok(self.faults >= 1 && self.best_after.max(self.checked_after_fault) >= 5)
    }

    // --------------------------------------------------------------------------------------
    // One top-level operation
    // --------------------------------------------------------------------------------------

    /// Returns Ok(true) if the operation was executed, Ok(false) if it was skipped.
    fn step(&mut self, op: &Op) -> Result<bool, Violation> {
        let i = Ix(self.op_index);
        let mut m2 = self.model.clone();
        let eff = m2.apply(op);
        if !eff.applicable {
            self.ctx.event(1, || format!("{i}: skipped (not applicable) {op:?}"));
            return Ok(false);
        }
        if let Some(k) = eff.illegal.iter().find(|k| !self.sc.allow.has(**k)) {
            let k = *k;
            self.ctx.event(2, || format!("{i}: skipped (would trigger {k:?}) {op:?}"));
            return Ok(false);
        }
        self.set_progress("executing");
        let caps_before = self.caps();
        let lens_before: Vec<[usize; 2]> = (0..self.pools.len())
            .map(|p| [self.model.live_count_lay(p as u8, 0), self.model.live_count_lay(p as u8, 1)])
            .collect();
        let position = self.fault_position(&eff);
        self.op_mutated = false;
        self.pending = None;
        let r = catch_unwind(AssertUnwindSafe(|| self.exec(op, &eff)));
        let outcome = match r {
            Ok(()) => Outcome1::Returned,
            Err(p) => match p.downcast_ref::<Injected>() {
                Some(inj) => Outcome1::Injected(inj.kind, inj.id),
                None => Outcome1::Other(simkit::panic_message(&p)),
            },
        };
        self.flush_world();
        let oc = match &outcome {
            Outcome1::Returned => 0_u64,
            Outcome1::Injected(..) => 1,
            Outcome1::Other(_) => 2,
        };
        self.ctx.event(mix(hash_str("op"), mix(i.0 as u64, oc)), || {
            let o = match &outcome {
                Outcome1::Returned => "returned".to_owned(),
                Outcome1::Injected(k, id) => format!("unwound with the injected panic ({k} #{id})"),
                Outcome1::Other(m) => format!("PANICKED: {m}"),
            };
            format!("{i}: {op:?} -> {o}")
        });
        if let Some(v) = self.pending.take() {
            return Err(v);
        }
        match (&outcome, eff.expect) {
            (Outcome1::Returned, Expect::Return) | (Outcome1::Injected(..), Expect::Injected) => {}
            (Outcome1::Injected(..), Expect::InjectedOrPolicy) => {}
            (Outcome1::Other(m), Expect::Policy | Expect::InjectedOrPolicy) if m.contains("forbidden by DropPolicy::MustNotDropContents") => {}
            (Outcome1::Other(m), _) => {
                return Err(Violation::new(
                    &unexpected_panic_class(m),
                    format!("op {i} {op:?}: the call panicked with a message the fault plan did not inject: {m}"),
                ));
            }
            (Outcome1::Returned, e) => {
                return Err(Violation::new(
                    "missing-panic",
                    format!("op {i} {op:?}: returned normally but the model expects {e:?} to propagate"),
                ));
            }
            (Outcome1::Injected(k, id), e) => {
                return Err(Violation::new(
                    "unexpected-injected-panic",
                    format!("op {i} {op:?}: injected panic ({k} #{id}) propagated but the model expects {e:?}"),
                ));
            }
        }
        // Commit the model and harvest what the callbacks produced.
        self.model = m2;
        self.harvest_inbox();
        for id in &eff.born {
            if let Some(u) = self.uniq.get(id) {
                self.addr.insert(*id, K::addr_u(u));
            } else {
                return Err(Violation::new(
                    "harness-model-mismatch",
                    format!("op {i} {op:?}: model says #{id} was inserted but no handle reached the harness"),
                ));
            }
        }
        for id in &eff.died {
            self.addr.remove(id);
        }
        for t in &eff.tags {
            self.ctx.probe(t);
        }
        if let Some(pos) = position {
            for p in pos {
                self.ctx.probe(p);
            }
        }
        let fired = eff.panics > 0 || eff.closure_panic || eff.tags.iter().any(|t| t.starts_with("dtor-") || t.starts_with("closure-"));
        if fired {
            self.faults += 1;
            self.best_after = self.best_after.max(self.checked_after_fault);
            self.checked_after_fault = 0;
        } else if self.faults > 0 {
            self.checked_after_fault += 1;
        }
        self.check_drops(i, op)?;
        self.check_state(i, op, &eff, &caps_before, &lens_before)?;
        Ok(true)
    }

    /// Where does the object whose destructor is about to panic sit (full slab / last slab)?
    fn fault_position(&self, eff: &Effects) -> Option<Vec<&'static str>> {
        if eff.panics == 0 {
            return None;
        }
        let mut out = Vec::new();
        for id in &eff.died {
            let Some(o) = self.model.objs.get(id) else { continue };
            if !o.armed {
                continue;
            }
            let Some(a) = self.addr.get(id).copied() else { continue };
            let Some(Some(p)) = self.pools.get(o.pool as usize) else { continue };
            let Some(probe) = K::probe(p) else { continue };
            let n = probe.slabs.len();
            for (si, s) in probe.slabs.iter().enumerate() {
                if a >= s.base && a < s.base + s.bytes {
                    if s.count == probe.slab_capacity {
                        out.push("panicking-object-in-full-slab");
                    }
                    if si + 1 == n {
                        out.push("panicking-object-in-last-slab");
                    } else {
                        out.push("panicking-object-in-inner-slab");
                    }
                }
            }
        }
        Some(out)
    }

    fn flush_world(&mut self) {
        let (events, fired) = self.world.with(|w| (std::mem::take(&mut w.events), std::mem::take(&mut w.fired)));
        for (code, text) in events {
            self.ctx.event(code, || text.unwrap_or_default());
        }
        for f in fired {
            self.ctx.fault(f);
        }
    }

    fn harvest_inbox(&mut self) {
        let inbox = self.world.with(|w| std::mem::take(&mut w.inbox));
        for (id, _pool, h) in inbox {
            self.uniq.insert(id, h);
        }
    }

    // --------------------------------------------------------------------------------------
    // Executing the real calls
    // --------------------------------------------------------------------------------------

    /// Raw pools: take the pool value out of the runner (closures then cannot reach it, exactly
    /// as the borrow checker would enforce). Managed / local pools: a clone of the pool value.
    fn checkout(&mut self, pool: u8) -> Option<K::Pool> {
        let slot = self.pools.get_mut(pool as usize)?;
        if K::ACCESS == Access::Raw {
            slot.take()
        } else {
            slot.as_ref().and_then(K::clone_pool)
        }
    }

    fn checkin(&mut self, pool: u8, p: Option<K::Pool>) {
        if K::ACCESS == Access::Raw {
            if let (Some(slot), Some(p)) = (self.pools.get_mut(pool as usize), p) {
                *slot = Some(p);
            }
        }
    }

    fn make_node(&mut self, id: u32, pool: u8, spec: &Spec, eff_armed: bool) -> Node<K> {
        let mut node = Node::leaf(id, pool, &self.world);
        node.armed = eff_armed;
        if K::ACCESS == Access::Raw {
            return node;
        }
        let mut seen = Vec::new();
        for a in &spec.adopt {
            if seen.contains(a) {
                continue;
            }
            let Some(o) = self.model.objs.get(a) else { continue };
            if !o.live || o.top == 0 {
                continue;
            }
            let cp = o.pool;
            if let Some(u) = self.uniq.remove(a) {
                node.children.push(Child::U(*a, cp, u));
                seen.push(*a);
            } else if let Some(v) = self.shared.get_mut(a) {
                if let Some(s) = v.pop() {
                    node.children.push(Child::S(*a, cp, s));
                    seen.push(*a);
                }
            }
        }
        node.acts = spec.acts.clone();
        if !node.acts.is_empty() {
            node.pools = self.pools.iter().map(|p| p.as_ref().and_then(K::clone_pool)).collect();
        }
        if spec.pool_clone {
            node.extra_pool = self.pools.get(pool as usize).and_then(|p| p.as_ref()).and_then(K::clone_pool);
            self.ctx.probe("object-owns-pool-clone");
        }
        node
    }

    fn exec(&mut self, op: &Op, _eff: &Effects) {
        match op {
            Op::Insert {
                id,
                pool,
                lay,
                with,
                spec,
            } => {
                let lay = self.model.lay(*lay);
                let node = self.make_node(*id, *pool, spec, spec.armed);
                let mut p = self.checkout(*pool);
                let r = match with {
                    None => {
                        let pr = p.as_mut().expect("pool present");
                        catch_unwind(AssertUnwindSafe(|| K::insert(pr, lay, node)))
                    }
                    Some(plan) => {
                        let mut slot = Some(node);
                        let pr = p.as_mut().expect("pool present");
                        let r = catch_unwind(AssertUnwindSafe(|| {
                            K::insert_with(pr, lay, &mut || {
                                for a in &plan.pre {
                                    self.run_cact(a, "init");
                                }
                                if plan.panic {
                                    self.world.fired("panic_in_init");
                                    self.world.ev(0xC100, || "  init closure panics (injected)".to_owned());
                                    std::panic::panic_any(Injected { kind: "init", id: *id });
                                }
                                slot.take().expect("init closure runs once")
                            })
                        }));
                        if let Some(mut n) = slot.take() {
                            // Never inserted: dispose of the value outside the pool call.
                            n.armed = false;
                            drop(n);
                        }
                        r
                    }
                };
                self.checkin(*pool, p);
                match r {
                    Ok(h) => {
                        self.uniq.insert(*id, h);
                    }
                    Err(e) => resume_unwind(e),
                }
            }
            Op::Drop { id } => self.drop_handle(*id),
            Op::TakeOut { id } => {
                let Some(u) = self.uniq.remove(id) else { return };
                let pool = self.model.objs[id].pool;
                let mut p = if K::ACCESS == Access::Raw { self.checkout(pool) } else { None };
                let r = catch_unwind(AssertUnwindSafe(|| K::take_out(p.as_mut(), u)));
                self.checkin(pool, p);
                match r {
                    Ok(node) => {
                        if node.id != *id || node.canary != canary(*id) {
                            self.pending = Some(Violation::new(
                                "wrong-value-taken-out",
                                format!("into_inner/remove_unpin of #{id} returned id {} canary {:#x}", node.id, node.canary),
                            ));
                        }
                        self.world.ev(0xC200, || format!("  value of #{id} is dropped outside the pool"));
                        drop(node);
                    }
                    Err(e) => resume_unwind(e),
                }
            }
            Op::IntoShared { id } => {
                if let Some(u) = self.uniq.remove(id) {
                    self.shared.entry(*id).or_default().push(K::into_shared(u));
                }
            }
            Op::CloneShared { id } => {
                if let Some(v) = self.shared.get_mut(id) {
                    if let Some(s) = v.first() {
                        let c = K::clone_shared(s);
                        v.push(c);
                    }
                }
            }
            Op::Iterate { pool, plan } => {
                let expected: BTreeSet<usize> = self
                    .model
                    .objs
                    .iter()
                    .filter(|(_, o)| o.live && o.pool == *pool)
                    .filter_map(|(id, _)| self.addr.get(id).copied())
                    .collect();
                let p = self.checkout(*pool);
                let mut seen: Vec<usize> = Vec::new();
                let mut start_len: Option<usize> = None;
                let mut k: u32 = 0;
                let r = catch_unwind(AssertUnwindSafe(|| {
                    let pr = p.as_ref().expect("pool present");
                    K::iterate(pr, plan.dir, &mut |ev| match ev {
                        It::Start(n) => start_len = Some(n),
                        It::Item(a) => {
                            for (at, act) in &plan.at {
                                if *at == k {
                                    self.run_cact(act, "iter");
                                }
                            }
                            if plan.panic_at == Some(k) {
                                self.world.fired("panic_in_iter");
                                self.world.ev(0xC300 + u64::from(k), || format!("  iteration closure panics at item {k} (injected)"));
                                std::panic::panic_any(Injected { kind: "iter", id: k });
                            }
                            seen.push(a);
                            k += 1;
                        }
                    })
                }));
                self.checkin(*pool, p);
                match r {
                    Ok(_) => {
                        if !self.op_mutated {
                            let got: BTreeSet<usize> = seen.iter().copied().collect();
                            if start_len != Some(expected.len()) || got != expected || seen.len() != expected.len() {
                                self.pending = Some(Violation::new(
                                    "iter-mismatch",
                                    format!(
                                        "with_iter/iter over pool {pool}: ExactSizeIterator::len {start_len:?}, yielded {} items ({} distinct), model has {} live objects",
                                        seen.len(),
                                        got.len(),
                                        expected.len()
                                    ),
                                ));
                            }
                        }
                    }
                    Err(e) => resume_unwind(e),
                }
            }
            Op::Reserve { pool, lay, n } => {
                let lay = self.model.lay(*lay);
                let mut p = self.checkout(*pool);
                let r = catch_unwind(AssertUnwindSafe(|| K::reserve(p.as_mut().expect("pool present"), lay, *n as usize)));
                self.checkin(*pool, p);
                if let Err(e) = r {
                    resume_unwind(e);
                }
            }
            Op::Shrink { pool } => {
                let mut p = self.checkout(*pool);
                let r = catch_unwind(AssertUnwindSafe(|| K::shrink(p.as_mut().expect("pool present"))));
                self.checkin(*pool, p);
                if let Err(e) = r {
                    resume_unwind(e);
                }
            }
            Op::ClonePool { pool } => {
                if let Some(c) = self.pools[*pool as usize].as_ref().and_then(K::clone_pool) {
                    self.clones[*pool as usize].push(c);
                }
            }
            Op::DropPoolClone { pool } => {
                let c = self.clones[*pool as usize].pop();
                drop(c);
            }
            Op::DropPool { pool } => {
                let p = self.pools[*pool as usize].take();
                // Raw handles of the destroyed objects are inert; forget them.
                let dead: Vec<u32> = self
                    .model
                    .objs
                    .iter()
                    .filter(|(_, o)| o.live && o.pool == *pool)
                    .map(|(id, _)| *id)
                    .collect();
                for id in dead {
                    self.uniq.remove(&id);
                    self.shared.remove(&id);
                }
                drop(p);
            }
        }
    }

    fn drop_handle(&mut self, id: u32) {
        let Some(o) = self.model.objs.get(&id) else { return };
        let pool = o.pool;
        if let Some(u) = self.uniq.remove(&id) {
            let mut p = if K::ACCESS == Access::Raw { self.pools[pool as usize].take() } else { None };
            let r = catch_unwind(AssertUnwindSafe(|| K::drop_u(p.as_mut(), u)));
            if K::ACCESS == Access::Raw {
                self.pools[pool as usize] = p;
            }
            if let Err(e) = r {
                resume_unwind(e);
            }
        } else if let Some(v) = self.shared.get_mut(&id) {
            let Some(s) = v.pop() else { return };
            if v.is_empty() {
                self.shared.remove(&id);
            }
            let mut p = if K::ACCESS == Access::Raw { self.pools[pool as usize].take() } else { None };
            let r = catch_unwind(AssertUnwindSafe(|| K::drop_s(p.as_mut(), s)));
            if K::ACCESS == Access::Raw {
                self.pools[pool as usize] = p;
            }
            if let Err(e) = r {
                resume_unwind(e);
            }
        }
    }

    /// An action performed from inside an init / iteration closure (the pool guard is held by
    /// the enclosing library call).
    fn run_cact(&mut self, a: &CAct, ctx_name: &'static str) {
        match a {
            CAct::Query { pool } => {
                let Some(Some(p)) = self.pools.get(*pool as usize) else { return };
                self.world.fired(if ctx_name == "init" { "reenter_len(init closure)" } else { "reenter_len(iter closure)" });
                let n = K::len(p);
                let e = K::is_empty(p);
                let c = K::capacity(p, 0);
                self.world.ev(0xC400 + u64::from(*pool), || format!("  {ctx_name} closure queried pool {pool}: len {n} empty {e} cap {c}"));
                if !self.op_mutated {
                    let want = self.model.live_count(*pool);
                    if n != want || e != (want == 0) {
                        self.pending = Some(Violation::new(
                            "len-mismatch",
                            format!("{ctx_name} closure: pool {pool} len() = {n}, is_empty() = {e}, model has {want} live objects"),
                        ));
                    }
                }
            }
            CAct::Insert { pool, id, lay } => {
                if self.model.objs.contains_key(id) {
                    return;
                }
                let lay = self.model.lay(*lay);
                let node = Node::leaf(*id, *pool, &self.world);
                let Some(Some(p)) = self.pools.get_mut(*pool as usize) else { return };
                self.world.fired(if ctx_name == "init" { "reenter_insert(init closure)" } else { "reenter_insert(iter closure)" });
                self.op_mutated = true;
                let h = K::insert(p, lay, node);
                self.uniq.insert(*id, h);
                self.world.ev(0xC500 + u64::from(*id), || format!("  {ctx_name} closure inserted #{id} into pool {pool}"));
            }
            CAct::Drop { id } => {
                let Some(o) = self.model.objs.get(id) else { return };
                if !o.live || o.top == 0 {
                    return;
                }
                if K::ACCESS == Access::Raw && self.pools.get(o.pool as usize).is_none_or(Option::is_none) {
                    return;
                }
                if !self.uniq.contains_key(id) && !self.shared.contains_key(id) {
                    return;
                }
                self.world.fired(if ctx_name == "init" { "reenter_drop_handle(init closure)" } else { "reenter_drop_handle(iter closure)" });
                self.op_mutated = true;
                self.world.ev(0xC600 + u64::from(*id), || format!("  {ctx_name} closure drops a handle of #{id}"));
                self.drop_handle(*id);
            }
            CAct::Iter { pool } => {
                let Some(Some(p)) = self.pools.get(*pool as usize) else { return };
                self.world.fired(if ctx_name == "init" { "reenter_iter(init closure)" } else { "reenter_iter(iter closure)" });
                let mut n = 0_usize;
                let ok = K::iterate(p, 0, &mut |ev| {
                    if let It::Item(_) = ev {
                        n += 1;
                    }
                });
                if ok {
                    self.world.ev(0xC700 + u64::from(*pool), || format!("  {ctx_name} closure iterated pool {pool}: {n} items"));
                    if !self.op_mutated && n != self.model.live_count(*pool) {
                        self.pending = Some(Violation::new(
                            "iter-mismatch",
                            format!("{ctx_name} closure: nested iteration of pool {pool} yielded {n} items, model has {}", self.model.live_count(*pool)),
                        ));
                    }
                }
            }
        }
    }

    // --------------------------------------------------------------------------------------
    // Oracles
    // --------------------------------------------------------------------------------------

    fn caps(&self) -> Vec<[usize; 2]> {
        self.pools
            .iter()
            .map(|p| match p {
                Some(p) if self.sc.checks.cap => {
                    let r = catch_unwind(AssertUnwindSafe(|| {
                        [K::capacity(p, 0), if K::SHAPE == Shape::Blind { K::capacity(p, 1) } else { 0 }]
                    }));
                    r.unwrap_or([usize::MAX, usize::MAX])
                }
                _ => [0, 0],
            })
            .collect()
    }

    fn check_drops(&mut self, i: Ix, op: &Op) -> Result<(), Violation> {
        let drops = self.world.with(|w| w.drops.clone());
        for (id, o) in &self.model.objs {
            let d = drops.get(*id as usize).copied().unwrap_or(0);
            let want = u16::from(!o.live);
            if d != want {
                let class = if d > want {
                    if want == 0 { "premature-drop" } else { "double-drop" }
                } else {
                    "missing-drop"
                };
                return Err(Violation::new(
                    class,
                    format!("after op {i} {op:?}: destructor of #{id} ran {d} times, model expects {want}"),
                ));
            }
        }
        Ok(())
    }

    fn check_handles(&self, i: Ix) -> Result<(), Violation> {
        fn walk<K: Kit>(n: &Node<K>, id: u32, i: Ix, depth: u32) -> Result<(), Violation> {
            if n.id != id || n.canary != canary(id) {
                let what = if n.canary == CANARY_DEAD { "object was already destroyed" } else { "payload corrupted" };
                return Err(Violation::new(
                    "canary-mismatch",
                    format!("after op {i}: handle of #{id} reads id {} canary {:#x} ({what})", n.id, n.canary),
                ));
            }
            if depth < 6 {
                for c in &n.children {
                    match c {
                        Child::U(cid, _, u) => walk::<K>(K::node_u(u), *cid, i, depth + 1)?,
                        Child::S(cid, _, s) => walk::<K>(K::node_s(s), *cid, i, depth + 1)?,
                    }
                }
            }
            Ok(())
        }
        for (id, u) in &self.uniq {
            if self.addr.get(id).is_some_and(|a| *a != K::addr_u(u)) {
                return Err(Violation::new("address-moved", format!("after op {i}: #{id} moved")));
            }
            walk::<K>(K::node_u(u), *id, i, 0)?;
        }
        for (id, v) in &self.shared {
            for s in v {
                if self.addr.get(id).is_some_and(|a| *a != K::addr_s(s)) {
                    return Err(Violation::new("address-moved", format!("after op {i}: #{id} moved")));
                }
                walk::<K>(K::node_s(s), *id, i, 0)?;
            }
        }
        Ok(())
    }

    /// Everything `len` / `capacity` / iteration / the H1 probe say must describe exactly the
    /// live objects of the model. A panic or block in here is attributable to an earlier event
    /// (the checks themselves inject nothing).
    fn check_state(
        &mut self,
        i: Ix,
        op: &Op,
        eff: &Effects,
        caps_before: &[[usize; 2]],
        lens_before: &[[usize; 2]],
    ) -> Result<(), Violation> {
        self.set_progress("state check (len / capacity / iteration / probe) after");
        let r = catch_unwind(AssertUnwindSafe(|| self.check_state_inner(i, op, eff, caps_before, lens_before)));
        match r {
            Ok(r) => r,
            Err(p) => {
                let m = simkit::panic_message(&p);
                Err(Violation::new(
                    &unexpected_panic_class(&m),
                    format!("after op {i} {op:?}: a plain query/iteration of the pool panicked: {m}"),
                ))
            }
        }
    }

    fn check_state_inner(
        &mut self,
        i: Ix,
        op: &Op,
        eff: &Effects,
        caps_before: &[[usize; 2]],
        lens_before: &[[usize; 2]],
    ) -> Result<(), Violation> {
        let checks = self.sc.checks;
        self.check_handles(i)?;
        for pi in 0..self.pools.len() {
            let Some(p) = self.pools[pi].as_ref() else { continue };
            let pool = pi as u8;
            let live = self.model.live_count(pool);
            if checks.len {
                let n = K::len(p);
                let e = K::is_empty(p);
                if n != live || e != (live == 0) {
                    return Err(Violation::new(
                        "len-mismatch",
                        format!("after op {i} {op:?}: pool {pool} len() = {n}, is_empty() = {e}, but the model has {live} live objects"),
                    ));
                }
            }
            if checks.cap {
                let lays = if K::SHAPE == Shape::Blind { 2 } else { 1 };
                for lay in 0..lays {
                    let cap = K::capacity(p, lay as u8);
                    let live_l = self.model.live_count_lay(pool, lay as u8);
                    let before = caps_before[pi][lay];
                    let len_before = lens_before[pi][lay];
                    if cap < live_l {
                        return Err(Violation::new(
                            "capacity-invalid",
                            format!("after op {i} {op:?}: pool {pool} layout {lay}: capacity {cap} < {live_l} live objects"),
                        ));
                    }
                    if self.sc.slab_cap > 0 && cap % self.sc.slab_cap != 0 {
                        return Err(Violation::new(
                            "capacity-invalid",
                            format!("after op {i} {op:?}: pool {pool} layout {lay}: capacity {cap} is not a multiple of the slab capacity {}", self.sc.slab_cap),
                        ));
                    }
                    match op {
                        Op::Shrink { pool: sp } if *sp == pool => {
                            if cap > before {
                                return Err(Violation::new(
                                    "capacity-invalid",
                                    format!("after op {i} shrink_to_fit: pool {pool} layout {lay}: capacity grew {before} -> {cap}"),
                                ));
                            }
                        }
                        Op::Reserve { pool: rp, lay: rl, n } if *rp == pool && self.model.lay(*rl) as usize == lay => {
                            let need = live_l + *n as usize;
                            if cap < need || (before >= need && cap != before) {
                                return Err(Violation::new(
                                    "reserve-broken",
                                    format!("after op {i} reserve({n}): pool {pool} layout {lay}: capacity {before} -> {cap} with {live_l} live objects"),
                                ));
                            }
                        }
                        _ => {
                            let attempts = eff.attempts[pi][lay] as usize;
                            if cap < before {
                                return Err(Violation::new(
                                    "capacity-invalid",
                                    format!("after op {i} {op:?}: pool {pool} layout {lay}: capacity shrank {before} -> {cap} without shrink_to_fit"),
                                ));
                            }
                            // "capacity() is the number of objects the pool can hold without
                            // extension": inserting while that many slots are vacant must not grow it.
                            if cap > before && before != usize::MAX && len_before + attempts <= before {
                                return Err(Violation::new(
                                    "capacity-grew-with-vacancy",
                                    format!(
                                        "after op {i} {op:?}: pool {pool} layout {lay}: capacity grew {before} -> {cap} although only {len_before} of {before} slots were occupied and {attempts} insert(s) happened"
                                    ),
                                ));
                            }
                        }
                    }
                }
            }
            let expected: BTreeSet<usize> = self
                .model
                .objs
                .iter()
                .filter(|(id, o)| o.live && o.pool == pool && !self.leaked.contains(id))
                .filter_map(|(id, _)| self.addr.get(id).copied())
                .collect();
            let all_known = expected.len() == live;
            if checks.iter && K::SHAPE != Shape::Blind {
                // One direction per check (forward / backward / alternating by turns).
                for dir in [(i.0 % 3) as u8] {
                    let mut start = usize::MAX;
                    let mut seen: Vec<usize> = Vec::new();
                    K::iterate(p, dir, &mut |ev| match ev {
                        It::Start(n) => start = n,
                        It::Item(a) => seen.push(a),
                    });
                    let got: BTreeSet<usize> = seen.iter().copied().collect();
                    if start != live || seen.len() != live || got.len() != live || (all_known && got != expected) {
                        return Err(Violation::new(
                            "iter-mismatch",
                            format!(
                                "after op {i} {op:?}: pool {pool} iteration (dir {dir}): ExactSizeIterator::len {start}, {} items, {} distinct, {} of them not addresses of live objects; model has {live} live objects",
                                seen.len(),
                                got.len(),
                                got.difference(&expected).count()
                            ),
                        ));
                    }
                }
            }
            if checks.probe {
                if let Some(pr) = K::probe(p) {
                    if pr.length != live {
                        return Err(Violation::new(
                            "probe-length",
                            format!("after op {i} {op:?}: pool {pool} bookkeeping length {} but {live} live objects", pr.length),
                        ));
                    }
                    let mut occ: BTreeSet<usize> = BTreeSet::new();
                    let mut first_vacant = None;
                    for (si, s) in pr.slabs.iter().enumerate() {
                        let n_occ = s.occupied.iter().filter(|b| **b).count();
                        if n_occ != s.count || s.free_list_len != pr.slab_capacity - s.count {
                            return Err(Violation::new(
                                "probe-slab-bookkeeping",
                                format!(
                                    "after op {i} {op:?}: pool {pool} slab {si}: count {} but {n_occ} occupied tags, free list length {} (capacity {})",
                                    s.count, s.free_list_len, pr.slab_capacity
                                ),
                            ));
                        }
                        let vacant = s.count < pr.slab_capacity;
                        if pr.vacancy_bits.get(si).copied() != Some(vacant) {
                            return Err(Violation::new(
                                "probe-vacancy-stale",
                                format!(
                                    "after op {i} {op:?}: pool {pool} slab {si} holds {} of {} objects but its vacancy bit says {:?}",
                                    s.count,
                                    pr.slab_capacity,
                                    pr.vacancy_bits.get(si)
                                ),
                            ));
                        }
                        if vacant && first_vacant.is_none() {
                            first_vacant = Some(si);
                        }
                        for (k, o) in s.occupied.iter().enumerate() {
                            if *o {
                                occ.insert(s.base + k * pr.slot_stride + pr.slot_to_object_offset);
                            }
                        }
                    }
                    if pr.next_vacancy != first_vacant {
                        return Err(Violation::new(
                            "probe-vacancy-stale",
                            format!("after op {i} {op:?}: pool {pool} cached next vacancy {:?}, lowest slab with a vacancy {first_vacant:?}", pr.next_vacancy),
                        ));
                    }
                    if occ.len() != live || (all_known && occ != expected) {
                        return Err(Violation::new(
                            "probe-occupancy",
                            format!("after op {i} {op:?}: pool {pool} has {} occupied slots, model has {live} live objects (addresses match: {})", occ.len(), occ == expected),
                        ));
                    }
                    if let Op::Shrink { pool: sp } = op {
                        if *sp == pool && pr.slabs.last().is_some_and(|s| s.count == 0) {
                            return Err(Violation::new(
                                "shrink-left-empty-tail",
                                format!("after op {i} shrink_to_fit: pool {pool} still ends with an empty slab"),
                            ));
                        }
                    }
                }
            }
        }
        Ok(())
    }

    // --------------------------------------------------------------------------------------
    // Final teardown (part of the checked run)
    // --------------------------------------------------------------------------------------

    fn finish(&mut self) -> Result<(), Violation> {
        self.op_index = usize::MAX;
        let rc = K::ACCESS != Access::Raw;
        if rc && self.sc.pools_first {
            self.ctx.probe("teardown-pool-values-before-handles");
            self.set_progress("teardown: dropping pool values");
            let r = catch_unwind(AssertUnwindSafe(|| {
                for c in &mut self.clones {
                    c.clear();
                }
                for p in &mut self.pools {
                    *p = None;
                }
            }));
            if let Err(p) = r {
                let m = simkit::panic_message(&p);
                return Err(Violation::new(&unexpected_panic_class(&m), format!("dropping a pool value panicked: {m}")));
            }
            for mp in &mut self.model.pools {
                mp.extra_values = 0;
            }
        }
        // Remaining harness-owned handles, highest id first (parents before the children they
        // adopted, which are no longer harness-owned anyway).
        let ids: Vec<u32> = self.model.objs.iter().filter(|(_, o)| o.live && o.top > 0).map(|(id, _)| *id).rev().collect();
        for id in ids {
            loop {
                let Some(o) = self.model.objs.get(&id) else { break };
                if !o.live || o.top == 0 {
                    break;
                }
                if K::ACCESS == Access::Raw {
                    // Raw pools: whatever is left is destroyed by the pool drop below.
                    break;
                }
                if self.step(&Op::Drop { id })? {
                    continue;
                }
                if self.step(&Op::TakeOut { id })? {
                    self.ctx.probe("teardown-via-take-out");
                    continue;
                }
                self.leak(id);
                break;
            }
        }
        if !rc {
            for pi in 0..self.pools.len() {
                if self.pools[pi].is_some() && !self.step(&Op::DropPool { pool: pi as u8 })? {
                    self.ctx.probe("teardown-leaked-pool");
                    let p = self.pools[pi].take();
                    std::mem::forget(p);
                }
            }
        } else {
            self.set_progress("teardown: dropping pool values");
            let r = catch_unwind(AssertUnwindSafe(|| {
                for c in &mut self.clones {
                    c.clear();
                }
                for p in &mut self.pools {
                    *p = None;
                }
            }));
            if let Err(p) = r {
                let m = simkit::panic_message(&p);
                return Err(Violation::new(&unexpected_panic_class(&m), format!("dropping a pool value panicked: {m}")));
            }
        }
        self.check_drops(Ix(usize::MAX), &Op::Shrink { pool: 0 })?;
        Ok(())
    }

    fn leak(&mut self, id: u32) {
        self.ctx.probe("teardown-leaked-handle");
        if let Some(u) = self.uniq.remove(&id) {
            std::mem::forget(u);
        }
        if let Some(v) = self.shared.remove(&id) {
            std::mem::forget(v);
        }
        self.leaked.insert(id);
        if let Some(o) = self.model.objs.get_mut(&id) {
            o.top = 0;
        }
    }
}

/// Stable class for a panic that the fault plan did not inject (digits masked).
pub fn unexpected_panic_class(msg: &str) -> String {
    let mut class = String::from("unexpected-panic: ");
    let mut last_hash = false;
    for ch in msg.chars().take(70) {
        if ch.is_ascii_digit() {
            if !last_hash {
                class.push('#');
            }
            last_hash = true;
        } else {
            last_hash = false;
            class.push(if ch == '\n' { ' ' } else { ch });
        }
    }
    class
}

