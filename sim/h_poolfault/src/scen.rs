//! Serialisable description of one C04 run: pool kind, tuning knob, operation script with the
//! fault plan embedded in the operations (which destructor panics, what each closure does).

use serde::{Deserialize, Serialize};

#[derive(Clone, Copy, Debug, PartialEq, Eq, PartialOrd, Ord, Serialize, Deserialize)]
pub enum Access {
    Raw,
    Local,
    Managed,
}

#[derive(Clone, Copy, Debug, PartialEq, Eq, PartialOrd, Ord, Serialize, Deserialize)]
pub enum Shape {
    Opaque,
    Pinned,
    Blind,
}

/// Keys of the defects known on the unchanged tree (DESIGN §6 #2, #3a, #3b, #3c) plus the abort
/// this harness found. A key that is `true` in `Allow` means "this scenario may contain that
/// trigger"; ordinary modes set exactly the keys that are *not* in `AVOID_KNOWN`.
#[derive(Clone, Copy, Debug, PartialEq, Eq, PartialOrd, Ord, Serialize, Deserialize)]
pub enum Key {
    /// #2: a destructor panics while it is run by `RawOpaquePool::remove` (any pool kind).
    StaleLen,
    /// #3a: a panic unwinds through a thread-safe handle's `Drop` (guard held -> poisoned).
    Poison,
    /// #3b: a destructor run under the guard of pool P needs P's guard again.
    ReDtor,
    /// #3c: an init / iteration closure run under the guard of pool P needs P's guard again.
    ReClosure,
    /// Two destructors panic in different slabs while a raw pool is dropped (process abort).
    DropAbort,
    /// Two injected panics nested in one another (plain Rust double panic) — never generated.
    DoublePanic,
}

#[derive(Clone, Copy, Debug, Default, PartialEq, Eq, Serialize, Deserialize)]
pub struct Allow {
    pub stale_len: bool,
    pub poison: bool,
    pub re_dtor: bool,
    pub re_closure: bool,
    pub drop_abort: bool,
}

impl Allow {
    pub fn has(self, k: Key) -> bool {
        match k {
            Key::StaleLen => self.stale_len,
            Key::Poison => self.poison,
            Key::ReDtor => self.re_dtor,
            Key::ReClosure => self.re_closure,
            Key::DropAbort => self.drop_abort,
            Key::DoublePanic => false,
        }
    }
}

/// Which observations `check_state` makes (all in ordinary modes; `known-*` modes draw a subset so
/// that every manifestation of a defect is shown, not only the first one in check order).
#[derive(Clone, Copy, Debug, PartialEq, Eq, Serialize, Deserialize)]
pub struct Checks {
    pub len: bool,
    pub cap: bool,
    pub iter: bool,
    pub probe: bool,
}

impl Checks {
    pub const ALL: Checks = Checks {
        len: true,
        cap: true,
        iter: true,
        probe: true,
    };
}

/// Re-entrant action performed by a pooled object's destructor (before it drops its children).
#[derive(Clone, Debug, PartialEq, Eq, Serialize, Deserialize)]
pub enum Act {
    /// `len()` + `is_empty()` + `capacity()` of pool `pool`.
    Query { pool: u8 },
    /// Insert a fresh leaf object `id` into pool `pool`; the handle is handed to the harness.
    Insert { pool: u8, id: u32, lay: u8 },
}

/// Action performed by an init closure (before it writes the value) or an iteration closure.
#[derive(Clone, Debug, PartialEq, Eq, Serialize, Deserialize)]
pub enum CAct {
    Query { pool: u8 },
    Insert { pool: u8, id: u32, lay: u8 },
    /// Drop one harness-owned handle of object `id`.
    Drop { id: u32 },
    /// A nested full iteration of pool `pool`.
    Iter { pool: u8 },
}

#[derive(Clone, Debug, Default, PartialEq, Eq, Serialize, Deserialize)]
pub struct Spec {
    /// The destructor panics (after its actions and after dropping its children).
    pub armed: bool,
    /// One harness-owned handle of each listed object moves into the new object.
    pub adopt: Vec<u32>,
    pub acts: Vec<Act>,
    /// The object owns a clone of its own pool value (managed / local pools).
    pub pool_clone: bool,
}

#[derive(Clone, Debug, Default, PartialEq, Eq, Serialize, Deserialize)]
pub struct InitPlan {
    pub pre: Vec<CAct>,
    /// The closure panics before writing the value ("nothing inserted").
    pub panic: bool,
}

#[derive(Clone, Debug, Default, PartialEq, Eq, Serialize, Deserialize)]
pub struct IterPlan {
    /// 0 forward, 1 backward, 2 alternating front/back.
    pub dir: u8,
    /// Actions performed when the k-th item is yielded.
    pub at: Vec<(u32, CAct)>,
    /// The closure panics when the k-th item is yielded.
    pub panic_at: Option<u32>,
}

#[derive(Clone, Debug, PartialEq, Eq, Serialize, Deserialize)]
pub enum Op {
    Insert {
        id: u32,
        pool: u8,
        lay: u8,
        with: Option<InitPlan>,
        spec: Spec,
    },
    /// Drop one harness-owned handle (raw pools: `remove`).
    Drop { id: u32 },
    /// `into_inner` / `remove_unpin`, then drop the value outside the pool.
    TakeOut { id: u32 },
    IntoShared { id: u32 },
    CloneShared { id: u32 },
    Iterate { pool: u8, plan: IterPlan },
    Reserve { pool: u8, lay: u8, n: u8 },
    Shrink { pool: u8 },
    ClonePool { pool: u8 },
    DropPoolClone { pool: u8 },
    /// Raw pools only: drop the pool with whatever it contains.
    DropPool { pool: u8 },
}

#[derive(Clone, Debug, Serialize, Deserialize)]
pub struct PoolScenario {
    pub access: Access,
    pub shape: Shape,
    /// Slab capacity override (H1); 0 = the library's own choice (>= 32).
    pub slab_cap: usize,
    /// Raw pools: `DropPolicy::MustNotDropContents`.
    pub must_not_drop: bool,
    pub two_pools: bool,
    pub allow: Allow,
    pub checks: Checks,
    /// Final teardown drops every pool value before the remaining handles (managed / local).
    pub pools_first: bool,
    pub ops: Vec<Op>,
}

fn cact_weight(a: &CAct) -> usize {
    match a {
        CAct::Query { .. } => 1,
        CAct::Iter { .. } => 2,
        CAct::Insert { .. } | CAct::Drop { .. } => 3,
    }
}

pub fn op_weight(op: &Op) -> usize {
    match op {
        Op::Insert { with, spec, .. } => {
            let mut w = 1 + usize::from(spec.armed) * 2
                + spec.adopt.len() * 2
                + spec.acts.len() * 2
                + usize::from(spec.pool_clone);
            if let Some(p) = with {
                w += 2 + usize::from(p.panic) * 2 + p.pre.iter().map(cact_weight).sum::<usize>();
            }
            w
        }
        Op::Iterate { plan, .. } => {
            2 + usize::from(plan.panic_at.is_some()) * 2
                + plan.at.iter().map(|(_, a)| cact_weight(a)).sum::<usize>()
                + usize::from(plan.dir != 0)
        }
        Op::Reserve { n, .. } => 1 + usize::from(*n > 1),
        _ => 1,
    }
}

impl PoolScenario {
    pub fn size_of(&self) -> usize {
        self.ops.iter().map(|o| 10 + op_weight(o)).sum::<usize>()
            + usize::from(self.two_pools)
            + usize::from(self.must_not_drop)
            + usize::from(self.pools_first)
    }

    fn with_ops(&self, ops: Vec<Op>) -> Self {
        let mut s = self.clone();
        s.ops = ops;
        s
    }

    /// Strictly smaller variants: fewer operations first, then simpler operations, then simpler
    /// configuration. Dangling references are tolerated by `run` (such operations are skipped).
    pub fn shrink_candidates(&self) -> Vec<Self> {
        let mut out: Vec<Self> = simkit::shrink::remove_chunks(&self.ops)
            .into_iter()
            .map(|ops| self.with_ops(ops))
            .collect();
        for (i, op) in self.ops.iter().enumerate() {
            let mut simpler: Vec<Op> = Vec::new();
            match op {
                Op::Insert {
                    id,
                    pool,
                    lay,
                    with,
                    spec,
                } => {
                    let mk = |with: Option<InitPlan>, spec: Spec| Op::Insert {
                        id: *id,
                        pool: *pool,
                        lay: *lay,
                        with,
                        spec,
                    };
                    if let Some(p) = with {
                        simpler.push(mk(None, spec.clone()));
                        if p.panic {
                            let mut q = p.clone();
                            q.panic = false;
                            simpler.push(mk(Some(q), spec.clone()));
                        }
                        for k in 0..p.pre.len() {
                            let mut q = p.clone();
                            q.pre.remove(k);
                            simpler.push(mk(Some(q), spec.clone()));
                        }
                    }
                    if spec.armed {
                        let mut s = spec.clone();
                        s.armed = false;
                        simpler.push(mk(with.clone(), s));
                    }
                    if spec.pool_clone {
                        let mut s = spec.clone();
                        s.pool_clone = false;
                        simpler.push(mk(with.clone(), s));
                    }
                    for k in 0..spec.adopt.len() {
                        let mut s = spec.clone();
                        s.adopt.remove(k);
                        simpler.push(mk(with.clone(), s));
                    }
                    for k in 0..spec.acts.len() {
                        let mut s = spec.clone();
                        s.acts.remove(k);
                        simpler.push(mk(with.clone(), s));
                    }
                }
                Op::Iterate { pool, plan } => {
                    if plan.panic_at.is_some() {
                        let mut q = plan.clone();
                        q.panic_at = None;
                        simpler.push(Op::Iterate { pool: *pool, plan: q });
                    }
                    for k in 0..plan.at.len() {
                        let mut q = plan.clone();
                        q.at.remove(k);
                        simpler.push(Op::Iterate { pool: *pool, plan: q });
                    }
                    if plan.dir != 0 {
                        let mut q = plan.clone();
                        q.dir = 0;
                        simpler.push(Op::Iterate { pool: *pool, plan: q });
                    }
                }
                Op::Reserve { pool, lay, n } if *n > 1 => {
                    simpler.push(Op::Reserve {
                        pool: *pool,
                        lay: *lay,
                        n: 1,
                    });
                }
                _ => {}
            }
            for s in simpler {
                let mut ops = self.ops.clone();
                ops[i] = s;
                out.push(self.with_ops(ops));
            }
        }
        if self.two_pools {
            let mut s = self.clone();
            s.two_pools = false;
            out.push(s);
        }
        if self.must_not_drop {
            let mut s = self.clone();
            s.must_not_drop = false;
            out.push(s);
        }
        if self.pools_first {
            let mut s = self.clone();
            s.pools_first = false;
            out.push(s);
        }
        let size = self.size_of();
        out.retain(|c| c.size_of() < size);
        out
    }
}
