//! Reference model of "a pool that is fully panic-safe and re-entrant" plus a legality analysis:
//! for every operation it says (a) what an ideal pool would do (who is destroyed, who is born,
//! whether the injected panic propagates) and (b) which known-defect triggers the operation
//! contains (`Effects::illegal`). The generator uses (b) to stay clear of the keys in
//! `AVOID_KNOWN`; the runner uses (a) as the oracle and (b) to skip operations that a shrunk
//! scenario is not allowed to perform.

use std::collections::{BTreeMap, BTreeSet};

use crate::scen::{Access, Act, CAct, Key, Op, Shape};

#[derive(Clone, Debug)]
#[allow(dead_code)]
pub struct MObj {
    pub pool: u8,
    pub lay: u8,
    pub armed: bool,
    pub children: Vec<u32>,
    pub acts: Vec<Act>,
    pub pool_clone: bool,
    /// Present in its pool (not yet destroyed / taken out).
    pub live: bool,
    pub unique: bool,
    /// Handles in existence (1 for a unique handle).
    pub refs: u32,
    /// Handles owned by the harness (the others are owned by parent objects).
    pub top: u32,
}

#[derive(Clone, Debug)]
pub struct MPool {
    pub alive: bool,
    /// Pool values besides the primary one (managed / local).
    pub extra_values: u32,
    /// Objects ever inserted per layout (decides whether everything sits in slab 0).
    pub ever: [u32; 2],
}

#[derive(Clone, Debug)]
pub struct Model {
    pub access: Access,
    pub shape: Shape,
    pub slab_cap: usize,
    pub must_not_drop: bool,
    pub pools: Vec<MPool>,
    pub objs: BTreeMap<u32, MObj>,
}

#[derive(Clone, Copy, Debug, PartialEq, Eq)]
pub enum Expect {
    Return,
    /// The injected panic (destructor / init closure / iteration closure) propagates.
    Injected,
    /// `DropPolicy::MustNotDropContents` panic of a non-empty raw pool.
    Policy,
    /// Both a policy panic and an injected destructor panic are raised by different slabs of one
    /// pool drop; which of them surfaces depends on the slab order (either is correct).
    InjectedOrPolicy,
}

#[derive(Debug)]
pub struct Effects {
    pub applicable: bool,
    pub died: Vec<u32>,
    pub born: Vec<u32>,
    pub panics: u32,
    pub closure_panic: bool,
    pub expect: Expect,
    pub illegal: BTreeSet<Key>,
    pub tags: Vec<&'static str>,
    /// Number of insert attempts into (pool, lay) during the operation (capacity oracle).
    pub attempts: [[u32; 2]; 2],
}

#[derive(Clone, Copy, PartialEq, Eq)]
enum Mode {
    Shared,
    Excl,
}

#[derive(Clone, Copy, PartialEq, Eq)]
enum CtxKind {
    Dtor,
    Closure,
}

#[derive(Clone, Copy)]
struct Held {
    pool: u8,
    mode: Mode,
    ctx: CtxKind,
}

#[derive(Clone, Copy, PartialEq, Eq)]
enum Via {
    /// Destructor run by `RawOpaquePool::remove` (raw remove, handle drop, remover drop).
    Remove,
    /// Value dropped by the harness outside any pool call.
    Outside,
    /// Destructor run by `Slab::drop`.
    PoolDrop,
}

struct Sim {
    held: Vec<Held>,
    unwinding: bool,
    eff: Effects,
}

impl Model {
    pub fn new(access: Access, shape: Shape, slab_cap: usize, must_not_drop: bool, two_pools: bool) -> Self {
        let p = MPool {
            alive: true,
            extra_values: 0,
            ever: [0, 0],
        };
        Self {
            access,
            shape,
            slab_cap,
            must_not_drop: must_not_drop && access == Access::Raw,
            pools: if two_pools { vec![p.clone(), p] } else { vec![p] },
            objs: BTreeMap::new(),
        }
    }

    pub fn lay(&self, lay: u8) -> u8 {
        if self.shape == Shape::Blind { lay & 1 } else { 0 }
    }

    pub fn pool_ok(&self, pool: u8) -> bool {
        self.pools.get(pool as usize).is_some_and(|p| p.alive)
    }

    pub fn live_count(&self, pool: u8) -> usize {
        self.objs.values().filter(|o| o.live && o.pool == pool).count()
    }

    pub fn live_count_lay(&self, pool: u8, lay: u8) -> usize {
        self.objs
            .values()
            .filter(|o| o.live && o.pool == pool && o.lay == lay)
            .count()
    }

    /// Effective number of slots per slab as far as the model can know it.
    pub fn cap_eff(&self) -> u32 {
        if self.slab_cap == 0 { 32 } else { self.slab_cap as u32 }
    }

    fn need(&self, s: &mut Sim, pool: u8, mode: Mode) {
        for h in &s.held {
            if h.pool != pool {
                continue;
            }
            let conflict = self.access == Access::Managed || h.mode == Mode::Excl || mode == Mode::Excl;
            if conflict {
                s.eff.illegal.insert(match h.ctx {
                    CtxKind::Dtor => Key::ReDtor,
                    CtxKind::Closure => Key::ReClosure,
                });
            }
        }
    }

    fn raw_and_held(&self, s: &Sim, pool: u8) -> bool {
        self.access == Access::Raw && s.held.iter().any(|h| h.pool == pool)
    }

    fn new_leaf(&mut self, s: &mut Sim, pool: u8, id: u32, lay: u8) {
        let lay = self.lay(lay);
        self.objs.insert(
            id,
            MObj {
                pool,
                lay,
                armed: false,
                children: Vec::new(),
                acts: Vec::new(),
                pool_clone: false,
                live: true,
                unique: true,
                refs: 1,
                top: 1,
            },
        );
        self.pools[pool as usize].ever[lay as usize] += 1;
        s.eff.attempts[pool as usize][lay as usize] += 1;
        s.eff.born.push(id);
    }

    fn drop_ref(&mut self, s: &mut Sim, id: u32) {
        let Some(o) = self.objs.get_mut(&id) else { return };
        if !o.live || o.refs == 0 {
            return;
        }
        o.refs -= 1;
        if o.refs == 0 {
            if !o.unique {
                s.eff.tags.push("last-shared-handle-drop");
            }
            self.die(s, id, Via::Remove);
        } else if !s.held.is_empty() {
            s.eff.tags.push("nonlast-shared-drop-in-callback");
        }
    }

    fn die(&mut self, s: &mut Sim, id: u32, via: Via) {
        let pool = self.objs[&id].pool;
        if via == Via::Remove {
            self.need(s, pool, Mode::Excl);
            s.held.push(Held {
                pool,
                mode: Mode::Excl,
                ctx: CtxKind::Dtor,
            });
        }
        self.dtor_body(s, id, via);
        if via == Via::Remove {
            s.held.pop();
        }
    }

    fn dtor_body(&mut self, s: &mut Sim, id: u32, via: Via) {
        let (acts, children, armed, pool) = {
            let o = self.objs.get_mut(&id).expect("object exists");
            o.live = false;
            o.refs = 0;
            o.top = 0;
            (o.acts.clone(), o.children.clone(), o.armed, o.pool)
        };
        s.eff.died.push(id);
        for a in &acts {
            match a {
                Act::Query { pool: p } => {
                    if self.pool_ok(*p) {
                        self.need(s, *p, Mode::Shared);
                        s.eff.tags.push(if *p == pool { "dtor-query-same-pool" } else { "dtor-query-other-pool" });
                    }
                }
                Act::Insert { pool: p, id: nid, lay } => {
                    if self.pool_ok(*p) && !self.objs.contains_key(nid) {
                        self.need(s, *p, Mode::Excl);
                        self.new_leaf(s, *p, *nid, *lay);
                        s.eff.tags.push(if *p == pool { "dtor-insert-same-pool" } else { "dtor-insert-other-pool" });
                    }
                }
            }
        }
        for c in &children {
            if let Some(co) = self.objs.get(c) {
                s.eff.tags.push(if co.pool == pool { "dtor-drops-same-pool-handle" } else { "dtor-drops-other-pool-handle" });
            }
            self.drop_ref(s, *c);
        }
        if armed {
            s.eff.panics += 1;
            let managed = self.access == Access::Managed;
            for h in &s.held {
                if h.ctx == CtxKind::Dtor {
                    s.eff.illegal.insert(Key::StaleLen);
                    if managed {
                        s.eff.illegal.insert(Key::Poison);
                    }
                }
            }
            s.eff.tags.push(match via {
                Via::Remove => "dtor-panic@remove",
                Via::Outside => "dtor-panic@outside-pool",
                Via::PoolDrop => "dtor-panic@pool-drop",
            });
            if s.held.len() >= 2 {
                s.eff.tags.push("dtor-panic-nested");
            }
            s.unwinding = true;
        }
    }

    fn cact(&mut self, s: &mut Sim, a: &CAct) {
        match a {
            CAct::Query { pool } => {
                if !self.pool_ok(*pool) || self.raw_and_held(s, *pool) {
                    return;
                }
                self.need(s, *pool, Mode::Shared);
                s.eff.tags.push("closure-query");
            }
            CAct::Insert { pool, id, lay } => {
                if !self.pool_ok(*pool) || self.objs.contains_key(id) || self.raw_and_held(s, *pool) {
                    return;
                }
                self.need(s, *pool, Mode::Excl);
                self.new_leaf(s, *pool, *id, *lay);
                s.eff.tags.push("closure-insert");
            }
            CAct::Drop { id } => {
                if s.eff.born.contains(id) {
                    // Handles born inside this very operation are not visible to its script.
                    return;
                }
                let Some(o) = self.objs.get_mut(id) else { return };
                if !o.live || o.top == 0 {
                    return;
                }
                let pool = o.pool;
                if !self.pool_ok(pool) || self.raw_and_held(s, pool) {
                    return;
                }
                let o = self.objs.get_mut(id).expect("object exists");
                o.top -= 1;
                s.eff.tags.push("closure-drop-handle");
                self.drop_ref(s, *id);
            }
            CAct::Iter { pool } => {
                if self.shape == Shape::Blind || !self.pool_ok(*pool) || self.raw_and_held(s, *pool) {
                    return;
                }
                self.need(s, *pool, Mode::Shared);
                s.eff.tags.push("closure-nested-iter");
            }
        }
    }

    /// Applies `op` with the semantics of an ideal pool and reports what it entails.
    pub fn apply(&mut self, op: &Op) -> Effects {
        let mut s = Sim {
            held: Vec::new(),
            unwinding: false,
            eff: Effects {
                applicable: false,
                died: Vec::new(),
                born: Vec::new(),
                panics: 0,
                closure_panic: false,
                expect: Expect::Return,
                illegal: BTreeSet::new(),
                tags: Vec::new(),
                attempts: [[0; 2]; 2],
            },
        };
        let mut policy = false;
        let mut pool_drop = false;
        let mut either = false;
        let ok = self.apply_inner(op, &mut s, &mut policy, &mut pool_drop, &mut either);
        let mut eff = s.eff;
        eff.applicable = ok;
        if eff.panics >= 2 && !pool_drop {
            eff.illegal.insert(Key::DoublePanic);
        }
        if eff.panics >= 1 && eff.closure_panic {
            // Cannot happen (a closure stops at the first panic) but keep the model honest.
            eff.illegal.insert(Key::DoublePanic);
        }
        eff.expect = if either {
            Expect::InjectedOrPolicy
        } else if eff.panics > 0 || eff.closure_panic {
            Expect::Injected
        } else if policy {
            Expect::Policy
        } else {
            Expect::Return
        };
        eff
    }

    fn apply_inner(&mut self, op: &Op, s: &mut Sim, policy: &mut bool, pool_drop: &mut bool, either: &mut bool) -> bool {
        match op {
            Op::Insert {
                id,
                pool,
                lay,
                with,
                spec,
            } => {
                if !self.pool_ok(*pool) || self.objs.contains_key(id) {
                    return false;
                }
                let lay = self.lay(*lay);
                let raw = self.access == Access::Raw;
                let mut children = Vec::new();
                if !raw {
                    for a in &spec.adopt {
                        if children.contains(a) {
                            continue;
                        }
                        if let Some(o) = self.objs.get_mut(a) {
                            if o.live && o.top > 0 {
                                o.top -= 1;
                                children.push(*a);
                            }
                        }
                    }
                }
                let acts = if raw { Vec::new() } else { spec.acts.clone() };
                let mut panicked = false;
                if let Some(plan) = with {
                    self.need(s, *pool, Mode::Excl);
                    s.held.push(Held {
                        pool: *pool,
                        mode: Mode::Excl,
                        ctx: CtxKind::Closure,
                    });
                    for a in &plan.pre {
                        if s.unwinding {
                            break;
                        }
                        self.cact(s, a);
                    }
                    if !s.unwinding && plan.panic {
                        s.unwinding = true;
                        s.eff.closure_panic = true;
                        s.eff.tags.push("init-panic");
                    }
                    s.held.pop();
                    panicked = s.unwinding;
                    s.unwinding = false;
                    s.eff.attempts[*pool as usize][lay as usize] += 1;
                    if self.objs.contains_key(id) {
                        // An action of the closure already used this id (malformed scenario).
                        return false;
                    }
                }
                if !children.is_empty() {
                    s.eff.tags.push("insert-adopts-handles");
                }
                self.objs.insert(
                    *id,
                    MObj {
                        pool: *pool,
                        lay,
                        armed: spec.armed && !panicked,
                        children,
                        acts,
                        pool_clone: spec.pool_clone && !raw,
                        live: !panicked,
                        unique: true,
                        refs: u32::from(!panicked),
                        top: u32::from(!panicked),
                    },
                );
                if panicked {
                    // The value never reached the pool; the harness disposes of it afterwards,
                    // outside any pool call (its children are dropped there).
                    self.dtor_body(s, *id, Via::Outside);
                    s.unwinding = false;
                } else {
                    self.pools[*pool as usize].ever[lay as usize] += 1;
                    if with.is_none() {
                        s.eff.attempts[*pool as usize][lay as usize] += 1;
                    }
                    s.eff.born.push(*id);
                }
                true
            }
            Op::Drop { id } => {
                let Some(o) = self.objs.get(id) else { return false };
                if !o.live || o.top == 0 || !self.pool_ok(o.pool) {
                    return false;
                }
                let o = self.objs.get_mut(id).expect("object exists");
                o.top -= 1;
                self.drop_ref(s, *id);
                true
            }
            Op::TakeOut { id } => {
                let Some(o) = self.objs.get(id) else { return false };
                if !o.live || !o.unique || o.top != 1 || o.refs != 1 || !self.pool_ok(o.pool) {
                    return false;
                }
                let pool = o.pool;
                let has_children = !o.children.is_empty();
                self.need(s, pool, Mode::Excl);
                if has_children {
                    s.eff.tags.push("takeout-with-children");
                }
                self.dtor_body(s, *id, Via::Outside);
                true
            }
            Op::IntoShared { id } => {
                let Some(o) = self.objs.get_mut(id) else { return false };
                if !o.live || !o.unique || o.top != 1 {
                    return false;
                }
                o.unique = false;
                true
            }
            Op::CloneShared { id } => {
                if self.access == Access::Raw {
                    return false;
                }
                let Some(o) = self.objs.get_mut(id) else { return false };
                if !o.live || o.unique || o.top == 0 {
                    return false;
                }
                o.refs += 1;
                o.top += 1;
                true
            }
            Op::Iterate { pool, plan } => {
                if self.shape == Shape::Blind || !self.pool_ok(*pool) {
                    return false;
                }
                let n = self.live_count(*pool) as u32;
                self.need(s, *pool, Mode::Shared);
                s.held.push(Held {
                    pool: *pool,
                    mode: Mode::Shared,
                    ctx: CtxKind::Closure,
                });
                'items: for k in 0..n {
                    for (at, a) in &plan.at {
                        if *at == k {
                            self.cact(s, a);
                            if s.unwinding {
                                break 'items;
                            }
                        }
                    }
                    if plan.panic_at == Some(k) {
                        s.unwinding = true;
                        s.eff.closure_panic = true;
                        s.eff.tags.push(if k == 0 { "iter-panic@first" } else { "iter-panic@later" });
                        break;
                    }
                }
                s.held.pop();
                s.unwinding = false;
                true
            }
            Op::Reserve { pool, .. } | Op::Shrink { pool } => self.pool_ok(*pool),
            Op::ClonePool { pool } => {
                if self.access == Access::Raw || !self.pool_ok(*pool) {
                    return false;
                }
                self.pools[*pool as usize].extra_values += 1;
                true
            }
            Op::DropPoolClone { pool } => {
                if self.access == Access::Raw || !self.pool_ok(*pool) || self.pools[*pool as usize].extra_values == 0 {
                    return false;
                }
                self.pools[*pool as usize].extra_values -= 1;
                true
            }
            Op::DropPool { pool } => {
                if self.access != Access::Raw || !self.pool_ok(*pool) {
                    return false;
                }
                *pool_drop = true;
                let ids: Vec<u32> = self
                    .objs
                    .iter()
                    .filter(|(_, o)| o.live && o.pool == *pool)
                    .map(|(id, _)| *id)
                    .collect();
                let live_n = ids.len();
                let mut lays = BTreeSet::new();
                for id in &ids {
                    lays.insert(self.objs[id].lay);
                }
                let single_slab = lays.len() <= 1
                    && lays
                        .iter()
                        .all(|l| self.pools[*pool as usize].ever[*l as usize] <= self.cap_eff());
                for id in &ids {
                    self.die(s, *id, Via::PoolDrop);
                }
                s.unwinding = false;
                let armed_n = s.eff.panics as usize;
                let mnd = self.must_not_drop;
                if (armed_n >= 2 || (mnd && armed_n >= 1 && live_n >= 2)) && !single_slab {
                    s.eff.illegal.insert(Key::DropAbort);
                }
                if armed_n >= 2 && single_slab {
                    s.eff.tags.push("pool-drop-multi-panic-one-slab");
                }
                if mnd && armed_n >= 1 && live_n >= 2 && !single_slab {
                    *either = true;
                }
                if mnd && live_n > 0 {
                    *policy = true;
                    s.eff.tags.push("pool-drop-must-not-drop-nonempty");
                }
                self.pools[*pool as usize].alive = false;
                true
            }
        }
    }
}
