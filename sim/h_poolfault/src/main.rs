//! h_poolfault — property C04: the `infinity_pool` pools stay usable and consistent when user
//! code they run (a payload destructor, an `insert_with` init closure, an iteration closure)
//! panics or re-enters the same pool. See /verif/DESIGN.md §5 C04 and §6 findings 2, 3a, 3b, 3c.
//!
//! Engine: native (fault sites are the simulator-owned destructor / closures; the whole run
//! executes on one coordinator thread so that a self-deadlock is reported as class `hang`), and
//! Miri (exact deadlock detection, UB oracle while panics unwind through the pool code).

mod genr;
mod kit;
mod model;
mod run;
mod scen;

use serde::{Deserialize, Serialize};
use simkit::{Ctx, Rng, Scenario, Violation, entry};

use scen::{Key, PoolScenario};

pub const K_STALE_LEN: &str = "c04-stale-len-after-panicking-dtor";
pub const K_POISON: &str = "c04-poison-after-panicking-dtor";
pub const K_REENTRANT_DTOR: &str = "c04-reentrant-dtor-deadlock";
pub const K_REENTRANT_CLOSURE: &str = "c04-reentrant-closure-deadlock";
pub const K_DROP_ABORT: &str = "c04-pool-drop-double-panic-abort";

/// Defects known on the unchanged tree. While a key is listed, the ordinary modes do not
/// generate its trigger and `known-<key>` reproduces it. Remove a key once the defect is fixed in
/// /repo: the ordinary modes then generate that trigger with the strict oracle.
///
/// * `c04-stale-len-after-panicking-dtor` (DESIGN §6 #2): a destructor panics while it is run by
///   `RawOpaquePool::remove` — raw `remove`, local / thread-safe handle drop, last shared handle.
/// * `c04-poison-after-panicking-dtor` (#3a): the same through a thread-safe handle (mutex
///   poisoned). Its trigger contains #2's, so it is generated only when both keys are gone.
/// * `c04-reentrant-dtor-deadlock` (#3b): a destructor run under the guard of a pool drops a
///   last handle of / queries / inserts into the same pool.
/// * `c04-reentrant-closure-deadlock` (#3c): an init or iteration closure does the same.
/// * `c04-pool-drop-double-panic-abort` (found by this harness): two destructors that panic in
///   different slabs (or inner pools) of one raw pool abort the process when the pool is dropped.
// K_STALE_LEN, K_POISON and K_DROP_ABORT were fixed in /repo (ad4ff2b, 828a390, 3347faa): the ordinary
// modes now generate their triggers with the strict oracle.
pub const AVOID_KNOWN: &[&str] = &[K_REENTRANT_DTOR, K_REENTRANT_CLOSURE];

#[derive(Clone, Debug, Serialize, Deserialize)]
#[serde(transparent)]
struct C04(PoolScenario);

impl Scenario for C04 {
    fn generate(rng: &mut Rng, mode: &str) -> Self {
        let allow = genr::allow_from_avoid(AVOID_KNOWN);
        C04(match mode {
            "faulty" => genr::ordinary(rng, allow, false),
            "faulty-small" => genr::ordinary(rng, allow, true),
            m => {
                let key = m.strip_prefix("known-").unwrap_or(m);
                let key = match key {
                    K_STALE_LEN => Key::StaleLen,
                    K_POISON => Key::Poison,
                    K_REENTRANT_DTOR => Key::ReDtor,
                    K_REENTRANT_CLOSURE => Key::ReClosure,
                    K_DROP_ABORT => Key::DropAbort,
                    other => panic!("h_poolfault: unknown mode {other}"),
                };
                genr::known(rng, key)
            }
        })
    }

    fn run(&self, ctx: &mut Ctx) -> Result<bool, Violation> {
        run::run_scenario(&self.0, ctx)
    }

    fn shrink(&self) -> Vec<Self> {
        self.0.shrink_candidates().into_iter().map(C04).collect()
    }

    fn size(&self) -> usize {
        self.0.size_of()
    }
}

fn main() {
    simkit::cli_main(
        "h_poolfault",
        vec![
            entry::<C04>("C04", "faulty", "all nine pool types; injected panics and legal re-entrancy; strict oracle"),
            entry::<C04>("C04", "faulty-small", "same generator, short histories (Miri)"),
            entry::<C04>("C04", "known-c04-stale-len-after-panicking-dtor", "directed: destructor panics inside RawOpaquePool::remove (raw / local pools)"),
            entry::<C04>("C04", "known-c04-poison-after-panicking-dtor", "directed: destructor panics inside a thread-safe handle drop"),
            entry::<C04>("C04", "known-c04-reentrant-dtor-deadlock", "directed: destructor re-enters its own pool").isolated(),
            entry::<C04>("C04", "known-c04-reentrant-closure-deadlock", "directed: init / iteration closure re-enters its own pool").isolated(),
            entry::<C04>("C04", "known-c04-pool-drop-double-panic-abort", "directed: two panicking destructors in different slabs at raw pool drop").isolated(),
        ],
    )
}
