//! Scenario generators: the ordinary swarm generator (stays clear of every trigger whose key is
//! not allowed, by asking the model) and one narrow directed generator per known-defect key.

use simkit::Rng;

use crate::model::Model;
use crate::scen::{Access, Act, Allow, CAct, Checks, InitPlan, IterPlan, Key, Op, PoolScenario, Shape, Spec};

const ACCESSES: [Access; 3] = [Access::Raw, Access::Local, Access::Managed];
const SHAPES: [Shape; 3] = [Shape::Opaque, Shape::Pinned, Shape::Blind];

struct Gen<'r> {
    rng: &'r mut Rng,
    model: Model,
    allow: Allow,
    next_id: u32,
    faults_left: u32,
    n_pools: u8,
    ops: Vec<Op>,
}

fn legal(model: &Model, allow: Allow, op: &Op) -> Option<(Model, crate::model::Effects)> {
    let mut m2 = model.clone();
    let eff = m2.apply(op);
    if !eff.applicable || eff.illegal.iter().any(|k| !allow.has(*k)) {
        return None;
    }
    Some((m2, eff))
}

impl Gen<'_> {
    fn fresh(&mut self) -> u32 {
        let id = self.next_id;
        self.next_id += 1;
        id
    }

    fn pick_opt(&mut self, v: &[u32]) -> Option<u32> {
        if v.is_empty() { None } else { Some(*self.rng.pick(v)) }
    }

    fn pool(&mut self) -> u8 {
        let alive: Vec<u8> = (0..self.n_pools).filter(|p| self.model.pool_ok(*p)).collect();
        if alive.is_empty() { 0 } else { *self.rng.pick(&alive) }
    }

    fn lay(&mut self) -> u8 {
        if self.model.shape == Shape::Blind { self.rng.below(2) as u8 } else { 0 }
    }

    fn tops(&self) -> Vec<u32> {
        self.model.objs.iter().filter(|(_, o)| o.live && o.top > 0).map(|(id, _)| *id).collect()
    }

    /// Could one harness-owned handle of `id` be dropped right now without touching a trigger
    /// that is not allowed? (Objects for which this is false are never adopted or shared: they
    /// can only be disposed of through `TakeOut`.)
    fn droppable(&self, id: u32) -> bool {
        legal(&self.model, self.allow, &Op::Drop { id }).is_some()
    }

    /// Raw pools: whatever is alive must stay destroyable by dropping the pool.
    fn raw_pool_drop_stays_legal(&self, m: &Model) -> bool {
        if m.access != Access::Raw {
            return true;
        }
        (0..self.n_pools).all(|p| !m.pool_ok(p) || legal(m, self.allow, &Op::DropPool { pool: p }).is_some())
    }

    fn cact(&mut self, tops: &[u32]) -> CAct {
        let pool = self.pool();
        match self.rng.weighted(&[4, 3, 3, 1]) {
            0 => CAct::Query { pool },
            1 => CAct::Insert {
                pool,
                id: self.fresh(),
                lay: self.lay(),
            },
            2 if !tops.is_empty() => CAct::Drop { id: *self.rng.pick(tops) },
            3 => CAct::Iter { pool },
            _ => CAct::Query { pool },
        }
    }

    fn spec(&mut self) -> Spec {
        let mut spec = Spec::default();
        if self.faults_left > 0 && self.rng.chance(1, 4) {
            spec.armed = true;
        }
        if self.model.access == Access::Raw {
            return spec;
        }
        if self.rng.chance(1, 3) {
            let tops: Vec<u32> = self.tops().into_iter().filter(|id| self.droppable(*id)).collect();
            if !tops.is_empty() {
                let n = self.rng.range_usize(1, 3.min(tops.len()));
                for _ in 0..n {
                    let id = *self.rng.pick(&tops);
                    if !spec.adopt.contains(&id) {
                        spec.adopt.push(id);
                    }
                }
            }
        }
        if self.rng.chance(1, 4) {
            for _ in 0..self.rng.range(1, 2) {
                let pool = self.pool();
                if self.rng.bool() {
                    spec.acts.push(Act::Query { pool });
                } else {
                    let id = self.fresh();
                    let lay = self.lay();
                    spec.acts.push(Act::Insert { pool, id, lay });
                }
            }
        }
        spec.pool_clone = self.rng.chance(1, 8);
        spec
    }

    fn candidate(&mut self) -> Option<Op> {
        let tops = self.tops();
        let raw = self.model.access == Access::Raw;
        let blind = self.model.shape == Shape::Blind;
        let w_drop = if tops.is_empty() { 0 } else { 18 };
        let w_iter = if blind { 0 } else { 10 };
        let w_rc = if raw { 0 } else { 2 };
        let w_pool_drop = u32::from(raw && self.ops.len() > 6);
        let choice = self.rng.weighted(&[30, 12, w_drop, 6, 6, 6, w_iter, 3, 4, w_rc, w_rc, w_pool_drop]);
        Some(match choice {
            0 => Op::Insert {
                id: self.fresh(),
                pool: self.pool(),
                lay: self.lay(),
                with: None,
                spec: self.spec(),
            },
            1 => {
                let mut plan = InitPlan::default();
                let dtops: Vec<u32> = tops.iter().copied().filter(|id| self.droppable(*id)).collect();
                if self.rng.chance(1, 2) {
                    for _ in 0..self.rng.range(1, 2) {
                        plan.pre.push(self.cact(&dtops));
                    }
                }
                plan.panic = self.faults_left > 0 && self.rng.chance(1, 2);
                let mut spec = self.spec();
                if plan.panic {
                    spec.armed = false;
                }
                Op::Insert {
                    id: self.fresh(),
                    pool: self.pool(),
                    lay: self.lay(),
                    with: Some(plan),
                    spec,
                }
            }
            2 => Op::Drop { id: *self.rng.pick(&tops) },
            3 => Op::TakeOut { id: self.pick_opt(&tops)? },
            4 => {
                let c: Vec<u32> = tops.iter().copied().filter(|id| self.model.objs[id].unique && self.droppable(*id)).collect();
                Op::IntoShared { id: self.pick_opt(&c)? }
            }
            5 => {
                let c: Vec<u32> = tops.iter().copied().filter(|id| !self.model.objs[id].unique).collect();
                Op::CloneShared { id: self.pick_opt(&c)? }
            }
            6 => {
                let pool = self.pool();
                let n = self.model.live_count(pool) as u32;
                let mut plan = IterPlan {
                    dir: self.rng.below(3) as u8,
                    ..IterPlan::default()
                };
                let dtops: Vec<u32> = tops.iter().copied().filter(|id| self.droppable(*id)).collect();
                if n > 0 && self.rng.chance(1, 2) {
                    for _ in 0..self.rng.range(1, 2) {
                        let k = self.rng.below(u64::from(n)) as u32;
                        let a = self.cact(&dtops);
                        plan.at.push((k, a));
                    }
                }
                if n > 0 && self.faults_left > 0 && self.rng.chance(1, 3) {
                    plan.panic_at = Some(self.rng.below(u64::from(n)) as u32);
                }
                Op::Iterate { pool, plan }
            }
            7 => Op::Reserve {
                pool: self.pool(),
                lay: self.lay(),
                n: self.rng.range(1, 9) as u8,
            },
            8 => Op::Shrink { pool: self.pool() },
            9 => Op::ClonePool { pool: self.pool() },
            10 => Op::DropPoolClone { pool: self.pool() },
            _ => Op::DropPool { pool: self.pool() },
        })
    }

    fn fill(&mut self, n_ops: usize) {
        let mut attempts = 0;
        while self.ops.len() < n_ops && attempts < n_ops * 12 {
            attempts += 1;
            if !(0..self.n_pools).any(|p| self.model.pool_ok(p)) {
                break;
            }
            let Some(op) = self.candidate() else { continue };
            let Some((m2, eff)) = legal(&self.model, self.allow, &op) else { continue };
            if !self.raw_pool_drop_stays_legal(&m2) {
                continue;
            }
            if let Op::Insert { id, .. } = &op {
                // Do not build an object that could never be destroyed legally afterwards
                // (e.g. two panicking descendants in one ownership tree).
                let alive = m2.objs.get(id).is_some_and(|o| o.live);
                if alive
                    && m2.access != Access::Raw
                    && legal(&m2, self.allow, &Op::Drop { id: *id }).is_none()
                    && legal(&m2, self.allow, &Op::TakeOut { id: *id }).is_none()
                {
                    continue;
                }
            }
            let faulty = eff.panics > 0 || eff.closure_panic;
            if faulty {
                if self.faults_left == 0 {
                    continue;
                }
                self.faults_left -= 1;
            }
            self.model = m2;
            self.ops.push(op);
        }
    }
}

pub fn allow_from_avoid(avoid: &[&str]) -> Allow {
    Allow {
        stale_len: !avoid.contains(&crate::K_STALE_LEN),
        // The poison trigger (a panic unwinding through a thread-safe handle drop) always
        // contains the stale-length trigger: it is only generated once both are gone.
        poison: !avoid.contains(&crate::K_POISON) && !avoid.contains(&crate::K_STALE_LEN),
        re_dtor: !avoid.contains(&crate::K_REENTRANT_DTOR),
        re_closure: !avoid.contains(&crate::K_REENTRANT_CLOSURE),
        drop_abort: !avoid.contains(&crate::K_DROP_ABORT),
    }
}

pub fn ordinary(rng: &mut Rng, allow: Allow, small: bool) -> PoolScenario {
    let access = *rng.pick(&ACCESSES);
    let shape = *rng.pick(&SHAPES);
    let slab_cap = [1_usize, 2, 3, 4, 8, 0][rng.weighted(&[3, 4, 3, 3, 2, 1])];
    let two_pools = if access == Access::Raw { rng.chance(1, 4) } else { rng.chance(2, 3) };
    let must_not_drop = access == Access::Raw && rng.chance(1, 6);
    let n_ops = if small { rng.range_usize(4, 12) } else { rng.range_usize(10, 60) };
    let faults = [0_u32, 1, 2, 3, 4][rng.weighted(&[1, 4, 4, 3, 2])];
    let pools_first = rng.chance(1, 3);
    let mut g = Gen {
        model: Model::new(access, shape, slab_cap, must_not_drop, two_pools),
        rng,
        allow,
        next_id: 0,
        faults_left: faults,
        n_pools: if two_pools { 2 } else { 1 },
        ops: Vec::new(),
    };
    g.fill(n_ops);
    PoolScenario {
        access,
        shape,
        slab_cap,
        must_not_drop,
        two_pools,
        allow,
        checks: Checks::ALL,
        pools_first,
        ops: g.ops,
    }
}

// ------------------------------------------------------------------------------------------
// Directed generators for the known defects
// ------------------------------------------------------------------------------------------

fn plain(id: u32) -> Op {
    Op::Insert {
        id,
        pool: 0,
        lay: 0,
        with: None,
        spec: Spec::default(),
    }
}

fn with_spec(id: u32, spec: Spec) -> Op {
    Op::Insert {
        id,
        pool: 0,
        lay: 0,
        with: None,
        spec,
    }
}

fn base(access: Access, shape: Shape, slab_cap: usize, allow: Allow, ops: Vec<Op>) -> PoolScenario {
    PoolScenario {
        access,
        shape,
        slab_cap,
        must_not_drop: false,
        two_pools: false,
        allow,
        checks: Checks::ALL,
        pools_first: false,
        ops,
    }
}

/// A few plain inserts / removals so that the object of interest lands in varying positions
/// (full slab, last slab, inner slab).
fn prelude(rng: &mut Rng, slab_cap: usize, next: &mut u32) -> Vec<Op> {
    let mut ops = Vec::new();
    let n = rng.range_usize(0, 2 * slab_cap.max(1));
    let first = *next;
    for _ in 0..n {
        ops.push(plain(*next));
        *next += 1;
    }
    for id in first..*next {
        if rng.chance(1, 4) {
            ops.push(Op::Drop { id });
        }
    }
    ops
}

fn observe(rng: &mut Rng, shape: Shape, next: &mut u32) -> Vec<Op> {
    let mut ops = Vec::new();
    for _ in 0..rng.range(1, 3) {
        match rng.below(3) {
            0 => {
                ops.push(plain(*next));
                *next += 1;
            }
            1 if shape != Shape::Blind => ops.push(Op::Iterate {
                pool: 0,
                plan: IterPlan::default(),
            }),
            _ => ops.push(Op::Shrink { pool: 0 }),
        }
    }
    ops
}

pub fn known(rng: &mut Rng, key: Key) -> PoolScenario {
    let shape = *rng.pick(&SHAPES);
    let mut next = 0_u32;
    match key {
        Key::StaleLen | Key::Poison => {
            let access = if key == Key::Poison { Access::Managed } else { *rng.pick(&[Access::Raw, Access::Local]) };
            let slab_cap = *rng.pick(&[1_usize, 2, 3, 4]);
            let allow = Allow {
                stale_len: true,
                poison: key == Key::Poison,
                ..Allow::default()
            };
            let mut ops = prelude(rng, slab_cap, &mut next);
            let x = next;
            next += 1;
            ops.push(with_spec(
                x,
                Spec {
                    armed: true,
                    ..Spec::default()
                },
            ));
            for _ in 0..rng.below(3) {
                ops.push(plain(next));
                next += 1;
            }
            if access != Access::Raw && rng.chance(1, 3) {
                // The panic is reached through the drop of the last shared clone.
                ops.push(Op::IntoShared { id: x });
                ops.push(Op::CloneShared { id: x });
                ops.push(Op::Drop { id: x });
            }
            ops.push(Op::Drop { id: x });
            ops.extend(observe(rng, shape, &mut next));
            let mut sc = base(access, shape, slab_cap, allow, ops);
            if key == Key::StaleLen {
                // Show every manifestation, not only the first one in check order.
                let none = Checks {
                    len: false,
                    cap: false,
                    iter: false,
                    probe: false,
                };
                sc.checks = match rng.below(6) {
                    0 | 1 => Checks::ALL,
                    2 if shape != Shape::Blind => Checks { iter: true, ..none },
                    3 if shape != Shape::Blind => Checks { probe: true, ..none },
                    4 => {
                        // Stale vacancy bit, seen through the public API only: the panicking
                        // object is the last slot of a full slab, so the slab keeps being treated
                        // as full and the next insert grows the pool although a slot is vacant.
                        let mut ops = Vec::new();
                        for id in 0..slab_cap as u32 - 1 {
                            ops.push(plain(id));
                        }
                        let x = slab_cap as u32 - 1;
                        ops.push(with_spec(
                            x,
                            Spec {
                                armed: true,
                                ..Spec::default()
                            },
                        ));
                        ops.push(Op::Drop { id: x });
                        ops.push(plain(x + 1));
                        sc.ops = ops;
                        Checks { cap: true, ..none }
                    }
                    _ => Checks::ALL,
                };
            }
            sc
        }
        Key::ReDtor => {
            let access = *rng.pick(&[Access::Managed, Access::Local]);
            let slab_cap = *rng.pick(&[1_usize, 2, 4, 0]);
            let allow = Allow {
                re_dtor: true,
                ..Allow::default()
            };
            let mut ops = prelude(rng, slab_cap, &mut next);
            let a = next;
            let b = next + 1;
            let c = next + 2;
            next += 3;
            let adopt = |ids: Vec<u32>| Spec {
                adopt: ids,
                ..Spec::default()
            };
            match rng.below(6) {
                0 => {
                    // An object owns a unique handle to an object of the same pool.
                    ops.push(plain(a));
                    ops.push(with_spec(b, adopt(vec![a])));
                    ops.push(Op::Drop { id: b });
                }
                1 => {
                    // Its destructor merely asks the pool for its length.
                    ops.push(with_spec(
                        a,
                        Spec {
                            acts: vec![Act::Query { pool: 0 }],
                            ..Spec::default()
                        },
                    ));
                    ops.push(Op::Drop { id: a });
                }
                2 => {
                    // Its destructor inserts into the pool.
                    ops.push(with_spec(
                        a,
                        Spec {
                            acts: vec![Act::Insert { pool: 0, id: b, lay: 0 }],
                            ..Spec::default()
                        },
                    ));
                    ops.push(Op::Drop { id: a });
                }
                3 => {
                    // It owns the last shared handle.
                    ops.push(plain(a));
                    ops.push(Op::IntoShared { id: a });
                    ops.push(with_spec(b, adopt(vec![a])));
                    ops.push(Op::IntoShared { id: b });
                    ops.push(Op::Drop { id: b });
                }
                4 => {
                    // Chain of depth 2 whose head is taken out and dropped outside the pool: the
                    // middle object's destructor then runs under the guard and drops the tail.
                    ops.push(plain(a));
                    ops.push(with_spec(b, adopt(vec![a])));
                    ops.push(with_spec(c, adopt(vec![b])));
                    ops.push(Op::TakeOut { id: c });
                }
                _ => {
                    // Small tree: two children of the same pool.
                    ops.push(plain(a));
                    ops.push(plain(b));
                    ops.push(with_spec(c, adopt(vec![a, b])));
                    ops.push(Op::Drop { id: c });
                }
            }
            ops.extend(observe(rng, shape, &mut next));
            base(access, shape, slab_cap, allow, ops)
        }
        Key::ReClosure => {
            let access = *rng.pick(&[Access::Managed, Access::Local]);
            let slab_cap = *rng.pick(&[1_usize, 2, 4, 0]);
            let allow = Allow {
                re_closure: true,
                ..Allow::default()
            };
            let mut ops = prelude(rng, slab_cap, &mut next);
            let a = next;
            let b = next + 1;
            let c = next + 2;
            next += 3;
            let init = |id: u32, pre: Vec<CAct>| Op::Insert {
                id,
                pool: 0,
                lay: 0,
                with: Some(InitPlan { pre, panic: false }),
                spec: Spec::default(),
            };
            let iter = |at: CAct| Op::Iterate {
                pool: 0,
                plan: IterPlan {
                    dir: 0,
                    at: vec![(0, at)],
                    panic_at: None,
                },
            };
            let n_variants = if shape == Shape::Blind { 3 } else { 7 };
            match rng.below(n_variants) {
                0 => ops.push(init(a, vec![CAct::Query { pool: 0 }])),
                1 => ops.push(init(a, vec![CAct::Insert { pool: 0, id: b, lay: 0 }])),
                2 => {
                    ops.push(plain(a));
                    ops.push(init(b, vec![CAct::Drop { id: a }]));
                }
                3 => {
                    ops.push(plain(a));
                    ops.push(iter(CAct::Insert { pool: 0, id: b, lay: 0 }));
                }
                4 => {
                    ops.push(plain(a));
                    ops.push(plain(b));
                    ops.push(iter(CAct::Drop { id: b }));
                }
                5 => {
                    ops.push(plain(a));
                    // Legal on local pools (shared borrow inside shared borrow), a deadlock on
                    // thread-safe ones.
                    ops.push(iter(if access == Access::Managed { CAct::Query { pool: 0 } } else { CAct::Insert { pool: 0, id: c, lay: 0 } }));
                }
                _ => {
                    ops.push(plain(a));
                    ops.push(iter(if access == Access::Managed { CAct::Iter { pool: 0 } } else { CAct::Drop { id: a } }));
                }
            }
            ops.extend(observe(rng, shape, &mut next));
            base(access, shape, slab_cap, allow, ops)
        }
        Key::DropAbort | Key::DoublePanic => {
            let allow = Allow {
                drop_abort: true,
                ..Allow::default()
            };
            let armed = Spec {
                armed: true,
                ..Spec::default()
            };
            let (slab_cap, ops) = if shape == Shape::Blind && rng.bool() {
                // Two layouts = two inner pools, whatever the slab capacity.
                (
                    0,
                    vec![
                        with_spec(0, armed.clone()),
                        Op::Insert {
                            id: 1,
                            pool: 0,
                            lay: 1,
                            with: None,
                            spec: armed,
                        },
                        Op::DropPool { pool: 0 },
                    ],
                )
            } else {
                let cap = *rng.pick(&[1_usize, 2]);
                let mut ops = vec![with_spec(0, armed.clone())];
                let mut id = 1;
                for _ in 1..cap {
                    ops.push(plain(id));
                    id += 1;
                }
                ops.push(with_spec(id, armed));
                ops.push(Op::DropPool { pool: 0 });
                (cap, ops)
            };
            base(Access::Raw, shape, slab_cap, allow, ops)
        }
    }
}
