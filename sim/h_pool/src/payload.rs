//! Simulator-owned payload types (a menu of concrete `#[repr(align)]` layouts, all bytes canary)
//! and the per-run board the destructors report to.
//!
//! A payload carries no identity field (a 1-byte object has no room for one): the destructor
//! identifies its object by the address it runs at, which the harness recorded from the handle at
//! insertion. Every byte (sampled for large objects) is `canary(id, version, index)`.

use std::cell::RefCell;
use std::collections::BTreeMap;

#[derive(Clone, Copy, Debug, PartialEq, Eq)]
pub enum St {
    Live,
    /// `into_inner` / `remove_unpin` in progress or done: the pool must not run the destructor.
    Extracted,
    Destroyed,
}

#[derive(Clone, Debug)]
pub struct ObjRec {
    pub addr: usize,
    pub ver: u32,
    pub lay: u8,
    /// Handles the harness currently holds (decremented *before* the handle is released).
    pub refs: u32,
    /// Destructor runs at the pool address.
    pub drops: u32,
    /// Destructor runs of the value after it was extracted (the harness's own drop).
    pub value_drops: u32,
    pub state: St,
}

#[derive(Default)]
pub struct Board {
    pub objs: BTreeMap<u32, ObjRec>,
    /// Most recent occupant of every address ever handed out.
    pub by_addr: BTreeMap<usize, u32>,
    /// Set while the harness drops a value it extracted by value.
    pub dropping_extracted: Option<u32>,
    /// A pool that may drop its contents is being dropped: handles are inert.
    pub pool_dropping: bool,
    /// First violation noticed inside a destructor.
    pub flag: Option<(&'static str, String)>,
    /// Objects destroyed since the harness last looked.
    pub destroyed_now: Vec<u32>,
}

thread_local! {
    static BOARD: RefCell<Board> = RefCell::new(Board::default());
}

pub fn board<R>(f: impl FnOnce(&mut Board) -> R) -> R {
    BOARD.with(|b| f(&mut b.borrow_mut()))
}

pub fn board_reset() {
    board(|b| *b = Board::default());
}

impl Board {
    fn raise(&mut self, class: &'static str, detail: String) {
        if self.flag.is_none() {
            self.flag = Some((class, detail));
        }
    }
}

#[inline]
pub fn cb(id: u32, ver: u32, i: usize) -> u8 {
    let x = id
        .wrapping_mul(0x9E37_79B1)
        .wrapping_add(ver.wrapping_mul(0x85EB_CA6B))
        .wrapping_add((i as u32).wrapping_mul(0xC2B2_AE35))
        .wrapping_add(0x1234_5677);
    (x ^ (x >> 15) ^ (x >> 7)) as u8
}

/// Byte positions that carry the canary: all of them up to 192 bytes, otherwise the first 64,
/// the last 64 and 64 evenly spaced ones in between.
#[inline]
fn for_positions(n: usize, mut f: impl FnMut(usize) -> bool) -> bool {
    if n <= 192 {
        for i in 0..n {
            if !f(i) {
                return false;
            }
        }
        return true;
    }
    for i in 0..64 {
        if !f(i) {
            return false;
        }
    }
    for i in n - 64..n {
        if !f(i) {
            return false;
        }
    }
    let step = (n - 128) / 64;
    for k in 0..64 {
        if !f(64 + k * step.max(1)) {
            return false;
        }
    }
    true
}

pub fn fill(b: &mut [u8], id: u32, ver: u32) {
    let n = b.len();
    for_positions(n, |i| {
        b[i] = cb(id, ver, i);
        true
    });
}

pub fn verify(b: &[u8], id: u32, ver: u32) -> bool {
    let n = b.len();
    for_positions(n, |i| b[i] == cb(id, ver, i))
}

fn on_drop(addr: usize, bytes: &[u8]) {
    board(|b| {
        if let Some(id) = b.dropping_extracted {
            let ver = b.objs.get(&id).map_or(0, |o| o.ver);
            let ok = verify(bytes, id, ver);
            if let Some(o) = b.objs.get_mut(&id) {
                o.value_drops += 1;
            }
            if !ok {
                b.raise(
                    "extracted-value-corrupt",
                    format!("the value extracted for object #{id} did not hold the stored bytes when it was dropped"),
                );
            }
            return;
        }
        let Some(&id) = b.by_addr.get(&addr) else {
            b.raise(
                "destructor-on-unknown-address",
                "a payload destructor ran at an address where no object was ever recorded".to_owned(),
            );
            return;
        };
        let pool_dropping = b.pool_dropping;
        let (state, refs, ver) = {
            let o = b.objs.get_mut(&id).expect("record");
            o.drops += 1;
            (o.state, o.refs, o.ver)
        };
        match state {
            St::Destroyed => b.raise(
                "double-drop",
                format!("object #{id} destroyed again (destructor run {})", b.objs[&id].drops),
            ),
            St::Extracted => b.raise(
                "destroyed-after-extraction",
                format!("the pool ran the destructor of object #{id}, which was extracted by value"),
            ),
            St::Live => {
                if refs > 0 && !pool_dropping {
                    b.raise(
                        "destroyed-while-handle-exists",
                        format!("object #{id} destroyed while {refs} handle(s) to it exist"),
                    );
                }
                if !verify(bytes, id, ver) {
                    b.raise(
                        "canary-corrupt-at-destruction",
                        format!("object #{id} did not hold its stored bytes when it was destroyed"),
                    );
                }
                b.objs.get_mut(&id).expect("record").state = St::Destroyed;
                b.destroyed_now.push(id);
            }
        }
    });
}

/// Trait-object view of a payload (the dyn-cast handle forms).
pub trait Obj: Send + Sync + Unpin {
    fn verify_dyn(&self, id: u32, ver: u32) -> bool;
    fn refill_dyn(&mut self, id: u32, ver: u32);
    fn self_addr(&self) -> usize;
}

pub trait Pay: Obj + Sized + 'static {
    fn make(id: u32, ver: u32) -> Self;
    /// Initialises `*p` in place (no stack temporary).
    ///
    /// # Safety
    /// `p` must be valid for writes of `Self`.
    unsafe fn init_at(p: *mut Self, id: u32, ver: u32);
}

#[derive(Clone, Copy, Debug)]
pub struct LayInfo {
    pub size: usize,
    pub align: usize,
    pub n: usize,
}

macro_rules! layouts {
    ($( $idx:literal => $name:ident, $align:literal, $n:expr; )*) => {
        $(
            #[repr(C, align($align))]
            pub struct $name {
                b: [u8; $n],
            }
            impl Obj for $name {
                fn verify_dyn(&self, id: u32, ver: u32) -> bool {
                    verify(&self.b, id, ver)
                }
                fn refill_dyn(&mut self, id: u32, ver: u32) {
                    fill(&mut self.b, id, ver);
                }
                fn self_addr(&self) -> usize {
                    std::ptr::from_ref(self) as usize
                }
            }
            impl Pay for $name {
                fn make(id: u32, ver: u32) -> Self {
                    let mut v = Self { b: [0; $n] };
                    fill(&mut v.b, id, ver);
                    v
                }
                unsafe fn init_at(p: *mut Self, id: u32, ver: u32) {
                    // SAFETY: caller guarantees validity for writes; all-zero is a valid value.
                    unsafe {
                        std::ptr::write_bytes(p, 0, 1);
                        fill(&mut (*p).b, id, ver);
                    }
                }
            }
            impl Drop for $name {
                fn drop(&mut self) {
                    on_drop(std::ptr::from_mut(self) as usize, &self.b);
                }
            }
        )*
        pub fn lay_info(lay: u8) -> LayInfo {
            match lay {
                $( $idx => LayInfo { size: size_of::<$name>(), align: align_of::<$name>(), n: $n }, )*
                _ => panic!("harness: no layout {lay}"),
            }
        }
    };
}

layouts! {
    0 => L0, 1, 1;
    1 => L1, 1, 3;
    2 => L2, 2, 2;
    3 => L3, 2, 6;
    4 => L4, 4, 4;
    5 => L5, 8, 8;
    6 => L6, 8, 24;
    7 => L7, 8, 20;            // same Layout as L6 (24, 8): shares an inner pool / an opaque pool
    8 => L8, 16, 16;
    9 => L9, 16, 100;
    10 => L10, 32, 32;
    11 => L11, 32, 40;
    12 => L12, 64, 64;
    13 => L13, 64, 100;
    14 => L14, 64, 128;        // same Layout as L13 (128, 64)
    15 => L15, 128, 200;
    16 => L16, 512, 512;
    17 => L17, 512, 8;
    18 => L18, 4096, 4096;
    19 => L19, 4096, 1;
    20 => L20, 8, 4096;
    21 => L21, 1, 5000;
    22 => L22, 64, 65_536;
    23 => L23, 8, 1_048_584;   // 1 MiB + 8
    24 => L24, 4096, 1_048_577; // 1 MiB + 1, page aligned (size 1 MiB + 4 KiB)
}

pub const N_LAYOUTS: u8 = 25;

/// `dispatch!(lay, func, args…)` calls `func::<L>(args…)` for the menu type with index `lay`.
#[macro_export]
macro_rules! dispatch {
    ($lay:expr, $f:ident $(, $arg:expr)*) => {
        match $lay {
            0 => $f::<$crate::payload::L0>($($arg),*),
            1 => $f::<$crate::payload::L1>($($arg),*),
            2 => $f::<$crate::payload::L2>($($arg),*),
            3 => $f::<$crate::payload::L3>($($arg),*),
            4 => $f::<$crate::payload::L4>($($arg),*),
            5 => $f::<$crate::payload::L5>($($arg),*),
            6 => $f::<$crate::payload::L6>($($arg),*),
            7 => $f::<$crate::payload::L7>($($arg),*),
            8 => $f::<$crate::payload::L8>($($arg),*),
            9 => $f::<$crate::payload::L9>($($arg),*),
            10 => $f::<$crate::payload::L10>($($arg),*),
            11 => $f::<$crate::payload::L11>($($arg),*),
            12 => $f::<$crate::payload::L12>($($arg),*),
            13 => $f::<$crate::payload::L13>($($arg),*),
            14 => $f::<$crate::payload::L14>($($arg),*),
            15 => $f::<$crate::payload::L15>($($arg),*),
            16 => $f::<$crate::payload::L16>($($arg),*),
            17 => $f::<$crate::payload::L17>($($arg),*),
            18 => $f::<$crate::payload::L18>($($arg),*),
            19 => $f::<$crate::payload::L19>($($arg),*),
            20 => $f::<$crate::payload::L20>($($arg),*),
            21 => $f::<$crate::payload::L21>($($arg),*),
            22 => $f::<$crate::payload::L22>($($arg),*),
            23 => $f::<$crate::payload::L23>($($arg),*),
            24 => $f::<$crate::payload::L24>($($arg),*),
            other => panic!("harness: no layout {other}"),
        }
    };
}

/// Payload of the panic an `insert_with` closure raises when the fault plan says so.
pub struct Injected;
