//! Harness for C01 (stable, exclusive, aligned address while alive) and C02 (destroyed exactly
//! once; accounting matches) of `infinity_pool`: generated operation histories over all nine pool
//! types, a menu of object layouts (size 1 .. > 1 MiB, alignment 1 .. 4096) and a randomised slab
//! capacity (hook H1), compared with a reference model after every operation.
//!
//! One generator, two separate oracle sets (`Oracle::Placement` = C01, `Oracle::Accounting` = C02),
//! separate modes and seed ranges (the run PRNG is keyed by property and mode).

mod payload;
mod run;
mod scen;
mod sut;

use serde::{Deserialize, Serialize};
use simkit::{Ctx, Rng, Scenario, Violation, entry};

use scen::{Oracle, PoolScenario};

/// Keys of known defects whose trigger the ordinary modes must not generate. None of the entries
/// of /verif/known_findings.json concerns C01 / C02 (the C04 entries need panicking or re-entrant
/// destructors, which this harness never generates; its destructors only count).
#[allow(dead_code)]
const AVOID_KNOWN: &[&str] = &[];

fn mode_flags(mode: &str) -> (bool, bool) {
    // (faulty, small)
    match mode {
        "strict" => (false, false),
        "initpanic" => (true, false),
        "small" => (false, true),
        "small-initpanic" => (true, true),
        other => panic!("h_pool: unknown mode {other}"),
    }
}

macro_rules! family {
    ($name:ident, $oracle:expr) => {
        #[derive(Clone, Debug, Serialize, Deserialize)]
        #[serde(transparent)]
        struct $name(PoolScenario);

        impl Scenario for $name {
            fn generate(rng: &mut Rng, mode: &str) -> Self {
                let (faulty, small) = mode_flags(mode);
                Self(scen::generate(rng, $oracle, faulty, small))
            }
            fn run(&self, ctx: &mut Ctx) -> Result<bool, Violation> {
                run::run(&self.0, ctx)
            }
            fn shrink(&self) -> Vec<Self> {
                self.0.shrink().into_iter().map(Self).collect()
            }
            fn size(&self) -> usize {
                self.0.size()
            }
        }
    };
}

family!(Placement, Oracle::Placement);
family!(Accounting, Oracle::Accounting);

fn main() {
    simkit::cli_main(
        "h_pool",
        vec![
            entry::<Placement>("C01", "strict", "histories over all pool kinds / layouts / slab capacities; placement oracles after every op").isolated(),
            entry::<Placement>("C01", "initpanic", "same, plus insert_with closures that panic (nothing must be inserted, placement intact)").isolated(),
            entry::<Placement>("C01", "small", "short histories, small layouts (Miri)").isolated(),
            entry::<Placement>("C01", "small-initpanic", "short histories with panicking insert_with closures (Miri)").isolated(),
            entry::<Accounting>("C02", "strict", "same generator; destruction / len / capacity / iteration / reserve / drop-policy oracles").isolated(),
            entry::<Accounting>("C02", "initpanic", "same, plus insert_with closures that panic (accounting must not change)").isolated(),
            entry::<Accounting>("C02", "small", "short histories, small layouts (Miri)").isolated(),
            entry::<Accounting>("C02", "small-initpanic", "short histories with panicking insert_with closures (Miri)").isolated(),
        ],
    )
}
