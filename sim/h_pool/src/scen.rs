//! Scenario description, generator and shrinker shared by C01 and C02.

use serde::{Deserialize, Serialize};
use simkit::Rng;

use crate::payload::{N_LAYOUTS, lay_info};
use crate::sut::{Access, Form, InsHow, Shape};

#[derive(Clone, Copy, Debug, PartialEq, Eq, Serialize, Deserialize)]
pub enum Oracle {
    /// C01: address stability / alignment / non-overlap / canary / H1 probe consistency.
    Placement,
    /// C02: destruction counters / len / capacity / iteration / reserve / drop policy.
    Accounting,
}

#[derive(Clone, Debug, PartialEq, Eq, Serialize, Deserialize)]
pub enum Op {
    /// Inserts object `hid` (its first handle has the same number).
    Insert { hid: u32, lay: u8, how: InsHow, via: u8 },
    /// Managed / local: drops the handle. Raw: `remove` (true) or forget the inert handle.
    Release { h: u32, remove: bool },
    /// `into_inner` / `remove_unpin`.
    Take { h: u32 },
    IntoShared { h: u32, via_from: bool },
    Clone { h: u32, new: u32 },
    Erase { h: u32 },
    Cast { h: u32 },
    Write { h: u32, how: u8 },
    Read { h: u32, how: u8 },
    Reserve { lay: u8, n: u32, via: u8 },
    Shrink { via: u8 },
    Iterate { dir: u8, via: u8 },
    ClonePool { via: u8 },
    DropPoolValue { via: u8 },
}

#[derive(Clone, Copy, Debug, PartialEq, Eq, Serialize, Deserialize)]
pub struct End {
    /// Managed / local: drop the pool values before the remaining handles.
    pub pools_first: bool,
    /// Release the remaining handles in reverse creation order.
    pub reverse: bool,
    /// Raw: remove every remaining object before dropping the pool.
    pub empty_first: bool,
    /// Raw opaque / blind: just before the pool is dropped, a plain-data value (no destructor) of each insertable
    /// layout is inserted and removed again - the last insert into its slab is then of a type without a destructor
    /// while objects with one may still live there. Absent in replay files written before this existed.
    #[serde(default)]
    pub plain_touch: bool,
}

#[derive(Clone, Debug, Serialize, Deserialize)]
pub struct PoolScenario {
    pub oracle: Oracle,
    pub access: Access,
    pub shape: Shape,
    /// Menu indexes of the object types in use (one Layout for opaque, one type for pinned,
    /// 2-4 for blind). The first one defines the pool.
    pub layouts: Vec<u8>,
    /// H1 slab-capacity override; 0 = the library's own choice.
    pub slab_cap: usize,
    /// Raw pools: `DropPolicy::MustNotDropContents`.
    pub must_not_drop: bool,
    /// Opaque pools: construct from a `Layout` value instead of `with_layout_of::<T>()`.
    pub via_layout: bool,
    pub ops: Vec<Op>,
    pub end: End,
}

pub const CAPS: [usize; 8] = [1, 2, 3, 4, 7, 8, 32, 0];

/// Layout indexes whose `Layout` equals that of `lay` (they share an opaque / inner pool).
pub fn same_layout(lay: u8) -> Vec<u8> {
    let a = lay_info(lay);
    (0..N_LAYOUTS)
        .filter(|l| {
            let b = lay_info(*l);
            a.size == b.size && a.align == b.align
        })
        .collect()
}

pub fn layout_group(lay: u8) -> u8 {
    same_layout(lay)[0]
}

struct GenHandle {
    hid: u32,
    obj: u32,
    form: Form,
}

struct Gen<'a> {
    rng: &'a mut Rng,
    access: Access,
    shape: Shape,
    layouts: Vec<u8>,
    insertable: Vec<u8>,
    slab_cap: usize,
    ops: Vec<Op>,
    handles: Vec<GenHandle>,
    /// Live objects in creation order.
    live: Vec<u32>,
    next_hid: u32,
    pool_values: u32,
    faulty: bool,
    max_live: usize,
}

impl Gen<'_> {
    fn fresh(&mut self) -> u32 {
        let h = self.next_hid;
        self.next_hid += 1;
        h
    }

    fn via(&mut self) -> u8 {
        self.rng.below(4) as u8
    }

    fn kill(&mut self, obj: u32) {
        self.handles.retain(|h| h.obj != obj);
        self.live.retain(|o| *o != obj);
    }

    fn insert(&mut self) {
        if self.pool_values == 0 || self.live.len() >= self.max_live {
            return;
        }
        let lay = *self.rng.pick(&self.insertable);
        let how = if self.faulty && self.rng.chance(1, 6) {
            InsHow::WithPanic
        } else {
            match self.rng.weighted(&[5, 3, 1, 1]) {
                0 => InsHow::Plain,
                1 => InsHow::With,
                2 => InsHow::Unchecked,
                _ => InsHow::WithUnchecked,
            }
        };
        let hid = self.fresh();
        let via = self.via();
        self.ops.push(Op::Insert { hid, lay, how, via });
        if how != InsHow::WithPanic {
            self.handles.push(GenHandle { hid, obj: hid, form: Form::Uniq });
            self.live.push(hid);
        }
    }

    fn release_handle(&mut self, idx: usize) {
        let h = &self.handles[idx];
        let (hid, obj, form) = (h.hid, h.obj, h.form);
        if self.access == Access::Raw {
            if self.pool_values == 0 {
                return;
            }
            let remove = self.rng.chance(7, 8);
            self.ops.push(Op::Release { h: hid, remove });
            if remove {
                self.kill(obj);
            } else {
                self.handles.remove(idx);
            }
        } else {
            self.ops.push(Op::Release { h: hid, remove: true });
            let others = self.handles.iter().filter(|x| x.obj == obj).count() - 1;
            self.handles.remove(idx);
            if others == 0 || !form.is_shared() {
                self.kill(obj);
            }
        }
    }

    fn release(&mut self) {
        if self.handles.is_empty() {
            return;
        }
        if self.rng.chance(3, 10) && !self.live.is_empty() {
            // Cluster: release every handle of up to k consecutively created objects, which
            // tends to empty whole slabs.
            let k = if self.slab_cap == 0 { self.rng.range_usize(1, 8) } else { self.slab_cap.min(8) };
            let k = self.rng.range_usize(1, k.max(1));
            let start = self.rng.below_usize(self.live.len());
            let victims: Vec<u32> = self.live.iter().skip(start).take(k).copied().collect();
            for obj in victims {
                while let Some(idx) = self.handles.iter().position(|h| h.obj == obj) {
                    let before = self.handles.len();
                    self.release_handle(idx);
                    if self.handles.len() == before {
                        return;
                    }
                }
            }
        } else {
            let idx = self.rng.below_usize(self.handles.len());
            self.release_handle(idx);
        }
    }

    fn pick_handle(&mut self, pred: impl Fn(&GenHandle) -> bool) -> Option<usize> {
        let c: Vec<usize> = (0..self.handles.len()).filter(|i| pred(&self.handles[*i])).collect();
        if c.is_empty() { None } else { Some(*self.rng.pick(&c)) }
    }

    fn step(&mut self, w: &[u32; 14]) {
        match self.rng.weighted(w) {
            0 => self.insert(),
            1 => self.release(),
            2 => {
                let raw = self.access == Access::Raw;
                if raw && self.pool_values == 0 {
                    return;
                }
                if let Some(i) = self.pick_handle(|h| h.form == Form::Uniq || (raw && h.form == Form::Shared)) {
                    let (hid, obj) = (self.handles[i].hid, self.handles[i].obj);
                    self.ops.push(Op::Take { h: hid });
                    self.kill(obj);
                }
            }
            3 => {
                if let Some(i) = self.pick_handle(|h| !h.form.is_shared()) {
                    let via_from = self.rng.chance(1, 3);
                    self.handles[i].form = self.handles[i].form.shared();
                    let h = self.handles[i].hid;
                    self.ops.push(Op::IntoShared { h, via_from });
                }
            }
            4 => {
                if let Some(i) = self.pick_handle(|h| h.form.is_shared()) {
                    let new = self.fresh();
                    let (h, obj, form) = (self.handles[i].hid, self.handles[i].obj, self.handles[i].form);
                    self.ops.push(Op::Clone { h, new });
                    self.handles.push(GenHandle { hid: new, obj, form });
                }
            }
            5 => {
                if let Some(i) = self.pick_handle(|h| !h.form.is_erased()) {
                    self.handles[i].form = self.handles[i].form.erased();
                    let h = self.handles[i].hid;
                    self.ops.push(Op::Erase { h });
                }
            }
            6 => {
                if let Some(i) = self.pick_handle(|h| h.form.is_typed()) {
                    self.handles[i].form = self.handles[i].form.dynamic();
                    let h = self.handles[i].hid;
                    self.ops.push(Op::Cast { h });
                }
            }
            7 => {
                if let Some(i) = self.pick_handle(|h| matches!(h.form, Form::Uniq | Form::UniqDyn)) {
                    let h = self.handles[i].hid;
                    let how = self.rng.below(8) as u8;
                    self.ops.push(Op::Write { h, how });
                }
            }
            8 => {
                if let Some(i) = self.pick_handle(|h| !h.form.is_erased()) {
                    let h = self.handles[i].hid;
                    let how = self.rng.below(16) as u8;
                    self.ops.push(Op::Read { h, how });
                }
            }
            9 => {
                if self.pool_values == 0 {
                    return;
                }
                let lay = *self.rng.pick(&self.layouts);
                let unit = if self.slab_cap == 0 { 40 } else { self.slab_cap as u64 };
                let n = match self.rng.weighted(&[2, 4, 3, 1]) {
                    0 => 0,
                    1 => self.rng.range(1, unit),
                    2 => self.rng.range(1, unit * 4),
                    _ => self.rng.range(unit * 4, unit * 12),
                } as u32;
                let n = if lay_info(lay).size >= 65_536 { n.min(3) } else { n };
                let via = self.via();
                self.ops.push(Op::Reserve { lay, n, via });
            }
            10 => {
                if self.pool_values > 0 {
                    let via = self.via();
                    self.ops.push(Op::Shrink { via });
                }
            }
            11 => {
                if self.pool_values > 0 && self.shape != Shape::Blind {
                    let via = self.via();
                    let dir = self.rng.below(5) as u8;
                    self.ops.push(Op::Iterate { dir, via });
                }
            }
            12 => {
                if self.access != Access::Raw && self.pool_values > 0 && self.pool_values < 4 {
                    let via = self.via();
                    self.ops.push(Op::ClonePool { via });
                    self.pool_values += 1;
                }
            }
            _ => {
                if self.access != Access::Raw && self.pool_values > 0 {
                    let via = self.via();
                    self.ops.push(Op::DropPoolValue { via });
                    self.pool_values -= 1;
                }
            }
        }
    }
}

const ACCESSES: [Access; 3] = [Access::Raw, Access::Local, Access::Managed];
const SHAPES: [Shape; 3] = [Shape::Opaque, Shape::Pinned, Shape::Blind];

/// Layout menu entries usable in this mode. `small`: Miri (nothing above 4 KiB + alignment).
fn pick_layout(rng: &mut Rng, small: bool) -> u8 {
    if small {
        // Sizes up to 512 bytes, every alignment class incl. 4096 via the 1-byte payload.
        *rng.pick(&[0_u8, 1, 2, 3, 4, 5, 6, 7, 8, 9, 10, 11, 12, 13, 14, 15, 17, 19])
    } else if rng.chance(1, 60) {
        // 64 KiB objects; rarely the > 1 MiB ones (fresh pages are expensive).
        if rng.chance(1, 3) { rng.range(23, 24) as u8 } else { 22 }
    } else {
        rng.below(22) as u8
    }
}

pub fn generate(rng: &mut Rng, oracle: Oracle, faulty: bool, small: bool) -> PoolScenario {
    let access = *rng.pick(&ACCESSES);
    let shape = *rng.pick(&SHAPES);
    let first = pick_layout(rng, small);
    let mut layouts = vec![first];
    if shape == Shape::Blind {
        let extra = rng.range_usize(1, 3);
        for _ in 0..extra {
            // Bias towards a second type with the same Layout (shares the inner pool).
            let l = if rng.chance(1, 4) { *rng.pick(&same_layout(first)) } else { pick_layout(rng, small) };
            if !layouts.contains(&l) {
                layouts.push(l);
            }
        }
    }
    let insertable: Vec<u8> = match shape {
        Shape::Opaque => same_layout(first),
        Shape::Pinned => vec![first],
        Shape::Blind => layouts.clone(),
    };
    let huge = layouts.iter().any(|l| lay_info(*l).size >= 65_536);
    let giant = layouts.iter().any(|l| lay_info(*l).size >= 1_000_000);
    let mut slab_cap = *rng.pick(&CAPS);
    if small && slab_cap == 0 && rng.chance(3, 4) {
        slab_cap = *rng.pick(&[1, 2, 3]);
    }
    if giant && !(1..=4).contains(&slab_cap) && rng.chance(19, 20) {
        // A default-capacity slab of > 1 MiB objects is 32+ MiB of freshly faulted pages.
        slab_cap = *rng.pick(&[1, 2, 3, 4]);
    }

    // History length class.
    let class = if small { 0 } else { rng.weighted(&[30, 40, 18, 12]) };
    let boundary = class == 3 && !huge;
    if boundary {
        // Histories that cross the 64-slab block of the vacancy bitmap need small slabs.
        slab_cap = *rng.pick(&[1, 1, 2, 2, 3]);
    }
    let n_ops = if small {
        rng.range_usize(1, 24)
    } else if huge {
        rng.range_usize(1, if giant { 24 } else { 60 })
    } else {
        match class {
            0 => rng.range_usize(1, 40),
            1 => rng.range_usize(40, 200),
            2 => rng.range_usize(200, 400),
            _ => rng.range_usize(66 * slab_cap + 20, 66 * slab_cap + 320),
        }
    };
    let max_live = if giant {
        6
    } else if huge {
        24
    } else if small {
        12
    } else {
        600
    };

    let mut g = Gen {
        rng,
        access,
        shape,
        layouts: layouts.clone(),
        insertable,
        slab_cap,
        ops: Vec::with_capacity(n_ops + 8),
        handles: Vec::new(),
        live: Vec::new(),
        next_hid: 0,
        pool_values: 1,
        faulty,
        max_live,
    };

    // Swarm: per-run weights for the conversion / query operations.
    let mut base = [0_u32; 14];
    for (i, w) in base.iter_mut().enumerate() {
        *w = match i {
            0 | 1 => 0,
            2 => *g.rng.pick(&[0, 1, 2, 4]),
            3..=8 => *g.rng.pick(&[0, 1, 2, 4, 6]),
            9 | 10 => *g.rng.pick(&[0, 1, 2, 3, 5]),
            11 => *g.rng.pick(&[0, 1, 2]),
            12 => *g.rng.pick(&[0, 0, 1, 2]),
            _ => *g.rng.pick(&[0, 0, 0, 1]),
        };
    }
    if boundary && g.rng.chance(1, 3) {
        // Reach many slabs at once through reserve.
        let n = g.rng.range(60, 70) as u32 * slab_cap as u32;
        g.ops.push(Op::Reserve { lay: first, n, via: 0 });
    }
    let mut phase_left = 0_usize;
    let mut w = base;
    let target_grow = if boundary { g.rng.range_usize(64, 68) * slab_cap + g.rng.range_usize(0, 3) } else { 0 };
    let mut grown = !boundary;
    while g.ops.len() < n_ops {
        if !grown {
            // Growth phase of a boundary history: almost only inserts.
            if g.live.len() >= target_grow || g.pool_values == 0 {
                grown = true;
                continue;
            }
            let mut gw = [0_u32; 14];
            gw[0] = 40;
            gw[1] = 1;
            gw[3] = 1;
            gw[4] = 1;
            gw[7] = 1;
            g.step(&gw);
            continue;
        }
        if phase_left == 0 {
            phase_left = g.rng.range_usize(8, 80);
            w = base;
            let (ins, rel) = match g.rng.weighted(&[4, 4, 3]) {
                0 => (12, 2),
                1 => (6, 6),
                _ => (2, 12),
            };
            w[0] = ins;
            w[1] = rel;
        }
        phase_left -= 1;
        let before = g.ops.len();
        g.step(&w);
        if g.ops.len() == before && g.rng.chance(1, 4) {
            // Nothing applicable: fall back to an insert so that the history makes progress.
            g.insert();
            if g.ops.len() == before {
                // No pool value left and nothing else to do.
                if g.handles.is_empty() {
                    break;
                }
                g.release();
            }
        }
    }
    let ops = std::mem::take(&mut g.ops);
    let end = End {
        pools_first: g.rng.bool(),
        reverse: g.rng.bool(),
        empty_first: g.rng.chance(1, 2),
        // Not drawn (every scenario generated before this existed stays what it was): parity of the history length.
        plain_touch: ops.len() % 2 == 0,
    };
    let must_not_drop = access == Access::Raw && g.rng.chance(2, 5);
    // Under Miri (small modes) a non-empty MustNotDropContents *blind* pool is not dropped: the
    // panic of the first inner pool unwinds through the map of inner pools, whose remaining
    // entries are then leaked by the map's destructor - the interpreter would report that leak.
    let must_not_drop = must_not_drop && !(small && shape == Shape::Blind);
    let via_layout = shape == Shape::Opaque && g.rng.chance(1, 4);
    PoolScenario {
        oracle,
        access,
        shape,
        layouts,
        slab_cap,
        must_not_drop,
        via_layout,
        ops,
        end,
    }
}

impl PoolScenario {
    pub fn size(&self) -> usize {
        self.ops.len() * 4
            + self
                .ops
                .iter()
                .filter(|o| matches!(o, Op::Insert { how, .. } if !matches!(how, InsHow::Plain | InsHow::WithPanic)))
                .count()
            + usize::from(self.end.pools_first)
            + usize::from(self.end.reverse)
            + usize::from(self.end.empty_first)
            + usize::from(self.via_layout)
    }

    pub fn shrink(&self) -> Vec<Self> {
        let mut out: Vec<Self> = simkit::shrink::remove_chunks(&self.ops)
            .into_iter()
            .map(|ops| Self { ops, ..self.clone() })
            .collect();
        for (i, op) in self.ops.iter().enumerate() {
            if let Op::Insert { hid, lay, how, via } = op {
                if !matches!(how, InsHow::Plain | InsHow::WithPanic) {
                    let mut ops = self.ops.clone();
                    ops[i] = Op::Insert { hid: *hid, lay: *lay, how: InsHow::Plain, via: *via };
                    out.push(Self { ops, ..self.clone() });
                }
            }
        }
        for f in 0..3 {
            let mut end = self.end;
            let flag = match f {
                0 => &mut end.pools_first,
                1 => &mut end.reverse,
                _ => &mut end.empty_first,
            };
            if *flag {
                *flag = false;
                out.push(Self { end, ..self.clone() });
            }
        }
        if self.via_layout {
            out.push(Self { via_layout: false, ..self.clone() });
        }
        out
    }
}
