//! Executes a scenario against the real pools and evaluates the oracles after every operation.

use std::collections::BTreeMap;
use std::mem::ManuallyDrop;
use std::panic::{AssertUnwindSafe, catch_unwind, resume_unwind};

use infinity_pool::verif::PoolProbe;
use simkit::{Ctx, Violation};

use crate::payload::{Injected, ObjRec, St, board, board_reset, lay_info};
use crate::scen::{Oracle, Op, PoolScenario, layout_group, same_layout};
use crate::sut::{Access, BoxHandle, BoxPool, Form, InsHow, Shape, new_pool, set_slab_capacity};

struct Held {
    obj: u32,
    /// Address and layout recorded at insertion; version as last written (only a unique handle
    /// can write, so every handle of an object carries the current one).
    addr: usize,
    lay: u8,
    ver: u32,
    h: BoxHandle,
}

struct Runner<'a> {
    sc: &'a PoolScenario,
    ctx: &'a mut Ctx,
    placement: bool,
    accounting: bool,
    pools: Vec<BoxPool>,
    handles: BTreeMap<u32, Held>,
    /// Live objects by address.
    live: BTreeMap<usize, (u32, usize)>,
    /// Live objects per layout group (types with one `Layout` share an inner pool).
    group_live: BTreeMap<u8, usize>,
    groups: Vec<u8>,
    /// Capacity per group as last observed (None until a pool value has been asked).
    caps: BTreeMap<u8, usize>,
    insertable: Vec<u8>,
    max_slabs: usize,
    last_next_vacancy: Option<usize>,
    last_slabs: usize,
    checked_ops: u64,
    shared_multi_drop: bool,
}

fn v(class: &str, detail: String) -> Violation {
    Violation::new(class, detail)
}

impl<'a> Runner<'a> {
    fn new(sc: &'a PoolScenario, ctx: &'a mut Ctx) -> Self {
        let first = sc.layouts[0];
        let insertable: Vec<u8> = match sc.shape {
            Shape::Opaque => same_layout(first),
            Shape::Pinned => vec![first],
            Shape::Blind => sc.layouts.clone(),
        };
        let mut groups: Vec<u8> = match sc.shape {
            Shape::Blind => sc.layouts.iter().map(|l| layout_group(*l)).collect(),
            _ => vec![layout_group(first)],
        };
        groups.sort_unstable();
        groups.dedup();
        Self {
            sc,
            ctx,
            placement: sc.oracle == Oracle::Placement,
            accounting: sc.oracle == Oracle::Accounting,
            pools: Vec::new(),
            handles: BTreeMap::new(),
            live: BTreeMap::new(),
            group_live: BTreeMap::new(),
            groups,
            caps: BTreeMap::new(),
            insertable,
            max_slabs: 0,
            last_next_vacancy: None,
            last_slabs: 0,
            checked_ops: 0,
            shared_multi_drop: false,
        }
    }

    fn pool_index(&self, via: u8) -> Option<usize> {
        if self.pools.is_empty() { None } else { Some(via as usize % self.pools.len()) }
    }

    fn group_of(&self, lay: u8) -> u8 {
        layout_group(lay)
    }

    fn live_in(&self, g: u8) -> usize {
        self.group_live.get(&g).copied().unwrap_or(0)
    }

    /// The object leaves the model (destroyed or extracted).
    fn forget_object(&mut self, obj: u32) {
        let (addr, lay) = board(|b| {
            let o = &b.objs[&obj];
            (o.addr, o.lay)
        });
        self.live.remove(&addr);
        let g = self.group_of(lay);
        if let Some(n) = self.group_live.get_mut(&g) {
            *n = n.saturating_sub(1);
        }
        let gone: Vec<u32> = self.handles.iter().filter(|(_, h)| h.obj == obj).map(|(k, _)| *k).collect();
        for k in gone {
            // Only raw (inert) handles can remain here.
            if let Some(h) = self.handles.remove(&k) {
                h.h.release(None);
            }
        }
    }

    fn apply(&mut self, i: usize, op: &Op) -> Result<Option<Vec<u32>>, Violation> {
        let raw = self.sc.access == Access::Raw;
        match op {
            Op::Insert { hid, lay, how, via } => {
                let Some(pi) = self.pool_index(*via) else { return Ok(None) };
                if !self.insertable.contains(lay) || self.handles.contains_key(hid) || board(|b| b.objs.contains_key(hid)) {
                    return Ok(None);
                }
                if *how == InsHow::WithPanic {
                    let pool = &mut self.pools[pi];
                    let r = catch_unwind(AssertUnwindSafe(|| pool.ins(*lay, *hid, *how)));
                    match r {
                        Err(p) if p.is::<Injected>() => {
                            self.ctx.fault("panic_in_init");
                            self.ctx.event(0x1F00 + u64::from(*lay), || format!("{i}: insert_with(layout {lay}) closure panicked (injected); nothing inserted"));
                            return Ok(Some(Vec::new()));
                        }
                        Err(p) => resume_unwind(p),
                        Ok(h) => {
                            std::mem::forget(h);
                            return Err(v("init-panic-swallowed", format!("op {i}: insert_with returned a handle although its closure panicked")));
                        }
                    }
                }
                let h = self.pools[pi].ins(*lay, *hid, *how);
                let addr = h.addr();
                let li = lay_info(*lay);
                let form = h.form();
                self.ctx.event(0x1000 + u64::from(*lay) * 8 + *how as u64, || format!("{i}: insert #{hid} layout {lay} (size {} align {}) {how:?}", li.size, li.align));
                if let Some((other, _)) = self.live.get(&addr) {
                    std::mem::forget(h);
                    return Err(v("address-shared-with-live-object", format!("op {i}: new object #{hid} was placed at the address of live object #{other}")));
                }
                if form != Form::Uniq {
                    return Err(v("harness-bug", format!("insert returned form {form:?}")));
                }
                board(|b| {
                    b.objs.insert(*hid, ObjRec { addr, ver: 0, lay: *lay, refs: 1, drops: 0, value_drops: 0, state: St::Live });
                    b.by_addr.insert(addr, *hid);
                });
                self.live.insert(addr, (*hid, li.size));
                *self.group_live.entry(self.group_of(*lay)).or_insert(0) += 1;
                self.handles.insert(*hid, Held { obj: *hid, addr, lay: *lay, ver: 0, h });
                if li.align > 16 {
                    self.ctx.probe("object-align>16");
                }
                Ok(Some(Vec::new()))
            }
            Op::Release { h, remove } => {
                if raw && self.pools.is_empty() {
                    return Ok(None);
                }
                let Some(held) = self.handles.remove(h) else { return Ok(None) };
                let obj = held.obj;
                let form = held.h.form();
                if raw {
                    if *remove {
                        board(|b| b.objs.get_mut(&obj).expect("rec").refs = 0);
                        self.ctx.event(0x2000 + form as u64, || format!("{i}: remove object #{obj} through handle {h} ({form:?})"));
                        self.forget_object(obj);
                        held.h.release(Some(self.pools[0].as_mut()));
                        Ok(Some(vec![obj]))
                    } else {
                        board(|b| {
                            let o = b.objs.get_mut(&obj).expect("rec");
                            o.refs = o.refs.saturating_sub(1);
                        });
                        self.ctx.event(0x2100 + form as u64, || format!("{i}: forget raw handle {h} of #{obj} ({form:?})"));
                        held.h.release(None);
                        Ok(Some(Vec::new()))
                    }
                } else {
                    let left = board(|b| {
                        let o = b.objs.get_mut(&obj).expect("rec");
                        o.refs -= 1;
                        o.refs
                    });
                    let last = left == 0;
                    if form.is_shared() && last {
                        self.ctx.probe("last-shared-handle-dropped");
                    }
                    if form.is_shared() && !last {
                        self.ctx.probe("shared-handle-dropped-with-clones-left");
                        self.shared_multi_drop = true;
                    }
                    if self.pools.is_empty() {
                        self.ctx.probe("handle-dropped-after-all-pool-values");
                    }
                    self.ctx.event(0x2200 + form as u64 * 2 + u64::from(last), || format!("{i}: drop handle {h} of #{obj} ({form:?}){}", if last { " - last" } else { "" }));
                    if last {
                        self.forget_object(obj);
                    }
                    held.h.release(None);
                    Ok(Some(if last { vec![obj] } else { Vec::new() }))
                }
            }
            Op::Take { h } => {
                if raw && self.pools.is_empty() {
                    return Ok(None);
                }
                let Some(held) = self.handles.get(h) else { return Ok(None) };
                let form = held.h.form();
                if !(form == Form::Uniq || (raw && form == Form::Shared)) {
                    return Ok(None);
                }
                let held = self.handles.remove(h).expect("present");
                let obj = held.obj;
                let ver = board(|b| {
                    let o = b.objs.get_mut(&obj).expect("rec");
                    o.refs = 0;
                    o.state = St::Extracted;
                    o.ver
                });
                self.forget_object(obj);
                let pool = if raw { Some(self.pools[0].as_mut()) } else { None };
                let taken = match held.h.take(pool, obj, ver) {
                    Ok(t) => t,
                    Err(_) => return Err(v("harness-bug", format!("op {i}: take unsupported on {form:?}"))),
                };
                self.ctx.event(0x3000 + u64::from(taken.value_ok), || format!("{i}: extract #{obj} by value through handle {h} ({form:?}): value intact {}", taken.value_ok));
                self.ctx.probe("extracted-by-value");
                if self.accounting {
                    if !taken.value_ok {
                        return Err(v("extracted-value-differs", format!("op {i}: into_inner/remove_unpin of #{obj} returned bytes that differ from what was stored")));
                    }
                    if taken.pool_drops_at_return != 0 {
                        return Err(v("destroyed-after-extraction", format!("op {i}: the destructor of #{obj} had run {} time(s) when the value was returned", taken.pool_drops_at_return)));
                    }
                    if taken.value_drops_after_drop != 1 {
                        return Err(v("extracted-value-drop-count", format!("op {i}: dropping the extracted value of #{obj} ran its destructor {} times", taken.value_drops_after_drop)));
                    }
                }
                Ok(Some(Vec::new()))
            }
            Op::IntoShared { h, via_from } => self.convert(i, *h, "into_shared", 0x4000, |b| b.into_shared(*via_from)),
            Op::Erase { h } => self.convert(i, *h, "erase", 0x4100, |b| b.erase()),
            Op::Cast { h } => self.convert(i, *h, "cast_obj", 0x4200, |b| b.cast_dyn()),
            Op::Clone { h, new } => {
                if self.handles.contains_key(new) || board(|b| b.objs.contains_key(new)) {
                    return Ok(None);
                }
                let Some(held) = self.handles.get(h) else { return Ok(None) };
                let Some(c) = held.h.try_clone() else { return Ok(None) };
                let (obj, addr, lay, ver) = (held.obj, held.addr, held.lay, held.ver);
                let form = c.form();
                board(|b| b.objs.get_mut(&obj).expect("rec").refs += 1);
                self.handles.insert(*new, Held { obj, addr, lay, ver, h: c });
                self.ctx.event(0x4300 + form as u64, || format!("{i}: clone handle {h} of #{obj} -> {new} ({form:?})"));
                Ok(Some(Vec::new()))
            }
            Op::Write { h, how } => {
                let Some(held) = self.handles.get_mut(h) else { return Ok(None) };
                let obj = held.obj;
                let (addr, ver) = board(|b| {
                    let o = &b.objs[&obj];
                    (o.addr, o.ver)
                });
                let Some(seen) = held.h.write(*how, obj, ver + 1) else { return Ok(None) };
                board(|b| b.objs.get_mut(&obj).expect("rec").ver = ver + 1);
                held.ver = ver + 1;
                let form = held.h.form();
                self.ctx.event(0x5000 + form as u64 * 16 + u64::from(*how % 16), || format!("{i}: rewrite #{obj} through handle {h} ({form:?}, accessor {how}) -> version {}", ver + 1));
                if self.placement {
                    if seen.self_addr != addr {
                        return Err(v("deref-address-mismatch", format!("op {i}: exclusive access to #{obj} through handle {h} produced a reference to a different address than ptr() at insertion")));
                    }
                    if !seen.ok {
                        return Err(v("canary-mismatch", format!("op {i}: #{obj} does not read back what was just written through handle {h}")));
                    }
                }
                Ok(Some(Vec::new()))
            }
            Op::Read { h, how } => {
                let Some(held) = self.handles.get(h) else { return Ok(None) };
                let obj = held.obj;
                let (addr, ver) = board(|b| {
                    let o = &b.objs[&obj];
                    (o.addr, o.ver)
                });
                let Some(seen) = held.h.view(*how, obj, ver) else { return Ok(None) };
                let form = held.h.form();
                self.ctx.event(0x5800 + form as u64 * 16 + u64::from(*how % 16), || format!("{i}: read #{obj} through handle {h} ({form:?}, accessor {how}): intact {}", seen.ok));
                if self.placement {
                    if seen.self_addr != addr {
                        return Err(v("deref-address-mismatch", format!("op {i}: reading #{obj} through handle {h} ({form:?}) produced a reference to a different address than ptr() at insertion")));
                    }
                    if !seen.ok {
                        return Err(v("canary-mismatch", format!("op {i}: #{obj} read through handle {h} ({form:?}, accessor {how}) does not hold the stored bytes")));
                    }
                }
                Ok(Some(Vec::new()))
            }
            Op::Reserve { lay, n, via } => {
                let Some(pi) = self.pool_index(*via) else { return Ok(None) };
                if !self.insertable.contains(lay) {
                    return Ok(None);
                }
                let g = self.group_of(*lay);
                let before = self.pools[pi].cap(*lay);
                self.pools[pi].res(*lay, *n as usize);
                let after = self.pools[pi].cap(*lay);
                let live_g = self.live_in(g);
                self.ctx.event(0x6000 + u64::from(after > before), || format!("{i}: reserve({n}) for layout {lay}: capacity {before} -> {after} with {live_g} live"));
                self.ctx.probe(if after > before { "reserve-grew" } else { "reserve-noop" });
                if self.accounting {
                    let need = live_g + *n as usize;
                    if after < need {
                        return Err(v("reserve-broken", format!("op {i}: reserve({n}) with {live_g} live objects left capacity at {after} < {need}")));
                    }
                    if before >= need && after != before {
                        return Err(v("reserve-broken", format!("op {i}: reserve({n}) changed capacity {before} -> {after} although {before} >= {live_g} + {n}")));
                    }
                    if after < before {
                        return Err(v("capacity-shrank", format!("op {i}: reserve({n}) reduced capacity {before} -> {after}")));
                    }
                }
                self.caps.insert(g, after);
                Ok(Some(Vec::new()))
            }
            Op::Shrink { via } => {
                let Some(pi) = self.pool_index(*via) else { return Ok(None) };
                let before: Vec<usize> = self.insertable.iter().map(|l| self.pools[pi].cap(*l)).collect();
                self.pools[pi].shr();
                let after: Vec<usize> = self.insertable.iter().map(|l| self.pools[pi].cap(*l)).collect();
                let shrunk = after.iter().zip(&before).any(|(a, b)| a < b);
                self.ctx.event(0x6100 + u64::from(shrunk), || format!("{i}: shrink_to_fit: capacities {before:?} -> {after:?}"));
                self.ctx.probe(if shrunk { "shrink-released-capacity" } else { "shrink-noop" });
                for (k, l) in self.insertable.clone().iter().enumerate() {
                    if self.accounting && after[k] > before[k] {
                        return Err(v("capacity-grew-on-shrink", format!("op {i}: shrink_to_fit raised the capacity for layout {l}: {} -> {}", before[k], after[k])));
                    }
                    self.caps.insert(self.group_of(*l), after[k]);
                }
                Ok(Some(Vec::new()))
            }
            Op::Iterate { dir, via } => {
                let Some(pi) = self.pool_index(*via) else { return Ok(None) };
                if self.sc.shape == Shape::Blind {
                    return Ok(None);
                }
                self.check_iteration(i, pi, *dir, true)?;
                Ok(Some(Vec::new()))
            }
            Op::ClonePool { via } => {
                let Some(pi) = self.pool_index(*via) else { return Ok(None) };
                let Some(c) = self.pools[pi].clone_pool() else { return Ok(None) };
                self.pools.push(c);
                self.ctx.event(0x7000 + self.pools.len() as u64, || format!("{i}: clone pool value -> {} values", self.pools.len()));
                self.ctx.probe("pool-value-cloned");
                Ok(Some(Vec::new()))
            }
            Op::DropPoolValue { via } => {
                if raw {
                    return Ok(None);
                }
                let Some(pi) = self.pool_index(*via) else { return Ok(None) };
                let p = self.pools.remove(pi);
                let left = self.pools.len();
                self.ctx.event(0x7100 + left as u64, || format!("{i}: drop pool value -> {left} values left, {} live objects", self.live.len()));
                if left == 0 && !self.live.is_empty() {
                    self.ctx.probe("all-pool-values-dropped-while-handles-live");
                }
                drop(p);
                Ok(Some(Vec::new()))
            }
        }
    }

    fn convert(
        &mut self,
        i: usize,
        h: u32,
        what: &str,
        code: u64,
        f: impl FnOnce(BoxHandle) -> Result<BoxHandle, BoxHandle>,
    ) -> Result<Option<Vec<u32>>, Violation> {
        let Some(held) = self.handles.remove(&h) else { return Ok(None) };
        let (obj, addr, lay, ver) = (held.obj, held.addr, held.lay, held.ver);
        let from = held.h.form();
        match f(held.h) {
            Ok(nh) => {
                let to = nh.form();
                self.handles.insert(h, Held { obj, addr, lay, ver, h: nh });
                self.ctx.event(code + from as u64 * 8 + to as u64, || format!("{i}: {what} handle {h} of #{obj}: {from:?} -> {to:?}"));
                self.ctx.probe(&format!("convert:{what}:{from:?}"));
                Ok(Some(Vec::new()))
            }
            Err(back) => {
                self.handles.insert(h, Held { obj, addr, lay, ver, h: back });
                Ok(None)
            }
        }
    }

    fn check_iteration(&mut self, i: usize, pi: usize, dir: u8, log: bool) -> Result<(), Violation> {
        let Some(it) = self.pools[pi].iterate(dir) else { return Ok(()) };
        let n = self.live.len();
        if log {
            self.ctx.event(0x6200 + u64::from(dir % 5) + ((it.addrs.len() as u64) << 8), || format!("{i}: iterate (direction {dir}): {} items", it.addrs.len()));
        }
        if !self.accounting {
            return Ok(());
        }
        let mut got = it.addrs.clone();
        got.sort_unstable();
        let distinct = {
            let mut d = got.clone();
            d.dedup();
            d.len()
        };
        let same = got.len() == n && got.iter().zip(self.live.keys()).all(|(a, b)| a == b);
        if it.exact_len != n || it.addrs.len() != n || distinct != n || !same || !it.len_consistent {
            let foreign = got.iter().filter(|a| !self.live.contains_key(a)).count();
            return Err(v(
                "iter-mismatch",
                format!(
                    "op {i}: iteration (direction {dir}) yielded {} items ({distinct} distinct, {foreign} not addresses of live objects), ExactSizeIterator::len {} (consistent while iterating: {}); the model has {n} live objects",
                    it.addrs.len(),
                    it.exact_len,
                    it.len_consistent
                ),
            ));
        }
        Ok(())
    }

    fn flag(&mut self, i: usize, op: &Op) -> Result<(), Violation> {
        if let Some((class, detail)) = board(|b| b.flag.take()) {
            // Destructor-level classes belong to the accounting oracle set; the placement set
            // only claims the canary.
            let mine = if class.starts_with("canary") || class == "extracted-value-corrupt" { self.placement || self.accounting } else { self.accounting };
            if mine {
                return Err(v(class, format!("op {i} {op:?}: {detail}")));
            }
        }
        Ok(())
    }

    fn check_after(&mut self, i: usize, op: &Op, expected: &[u32]) -> Result<(), Violation> {
        self.checked_ops += 1;
        self.flag(i, op)?;
        let mut destroyed = board(|b| std::mem::take(&mut b.destroyed_now));
        destroyed.sort_unstable();
        if !destroyed.is_empty() {
            self.ctx.event(0x8000 + destroyed.len() as u64, || format!("   destroyed: {destroyed:?}"));
        }
        if self.accounting {
            let mut want = expected.to_vec();
            want.sort_unstable();
            if destroyed != want {
                let extra: Vec<&u32> = destroyed.iter().filter(|d| !want.contains(d)).collect();
                let missing: Vec<&u32> = want.iter().filter(|d| !destroyed.contains(d)).collect();
                let class = if extra.is_empty() { "not-destroyed" } else { "destroyed-unexpectedly" };
                return Err(v(class, format!("op {i} {op:?}: destructors ran for {destroyed:?}, the model expects {want:?} (unexpected {extra:?}, missing {missing:?})")));
            }
        }

        // Observation shared by both oracle sets (coverage probes only).
        let probe: Option<PoolProbe> = self.pools.first().and_then(|p| p.vprobe());
        self.observe(op, probe.as_ref());

        if self.placement {
            self.check_placement(i, op, probe.as_ref())?;
        }
        if self.accounting {
            self.check_accounting(i, op)?;
        }
        Ok(())
    }

    fn observe(&mut self, op: &Op, probe: Option<&PoolProbe>) {
        let slabs = if let Some(pr) = probe {
            pr.slabs.len()
        } else if let Some(p) = self.pools.first() {
            if self.sc.slab_cap > 0 {
                self.insertable.iter().map(|l| p.cap(*l) / self.sc.slab_cap).max().unwrap_or(0)
            } else {
                0
            }
        } else {
            self.last_slabs
        };
        if slabs > self.max_slabs {
            self.max_slabs = slabs;
        }
        if slabs >= 2 && self.last_slabs < 2 {
            self.ctx.probe("crossed-slab-boundary");
        }
        if slabs > 64 && self.last_slabs <= 64 {
            self.ctx.probe("crossed-64-slab-block");
        }
        if let Some(pr) = probe {
            let nv = pr.next_vacancy;
            match op {
                Op::Insert { hid, .. } => {
                    if let (Some(a), Some(b)) = (self.last_next_vacancy, nv) {
                        if a < 64 && b >= 64 {
                            self.ctx.probe("vacancy-search-crossed-64");
                        }
                        if b > a + 1 {
                            self.ctx.probe("vacancy-search-skipped-full-slabs");
                        }
                    }
                    if let Some(addr) = board(|b| b.objs.get(hid).map(|o| o.addr)) {
                        if let Some(si) = pr.slabs.iter().position(|s| addr >= s.base && addr < s.base + s.bytes) {
                            if si + 1 < pr.slabs.len() {
                                self.ctx.probe("insert-into-non-last-slab");
                            }
                            if pr.slabs[si].count == pr.slab_capacity {
                                self.ctx.probe("insert-filled-a-slab");
                            }
                            if si >= 64 {
                                self.ctx.probe("insert-into-slab>=64");
                            }
                        }
                    }
                }
                Op::Release { .. } | Op::Take { .. } => {
                    if let (Some(a), Some(b)) = (self.last_next_vacancy, nv) {
                        if b < a {
                            self.ctx.probe("remove-lowered-next-vacancy");
                            if a >= 64 && b < 64 {
                                self.ctx.probe("remove-lowered-next-vacancy-across-64");
                            }
                        }
                    }
                    if self.last_next_vacancy.is_none() && nv.is_some() {
                        self.ctx.probe("remove-from-completely-full-pool");
                    }
                    if pr.slabs.iter().any(|s| s.count == 0) && pr.slabs.iter().rev().any(|s| s.count > 0) {
                        let first_empty = pr.slabs.iter().position(|s| s.count == 0).unwrap_or(0);
                        let last_nonempty = pr.slabs.iter().rposition(|s| s.count > 0).unwrap_or(0);
                        if first_empty < last_nonempty {
                            self.ctx.probe("empty-slab-below-non-empty-slab");
                        }
                    }
                }
                Op::Shrink { .. } => {
                    if slabs < self.last_slabs {
                        self.ctx.probe("shrink-removed-slabs");
                        if self.last_slabs > 64 && slabs <= 64 {
                            self.ctx.probe("shrink-across-64-slab-block");
                        }
                        if slabs > 0 {
                            self.ctx.probe("shrink-kept-some-slabs");
                        }
                    }
                    if pr.slabs.iter().any(|s| s.count == 0) {
                        self.ctx.probe("shrink-kept-an-empty-slab-below-live-one");
                    }
                }
                _ => {}
            }
            if pr.slabs.first().is_some_and(|s| s.bytes > 128 * 1024) {
                self.ctx.probe("slab>128KiB");
            }
            self.last_next_vacancy = nv;
        }
        self.last_slabs = slabs;
    }

    fn check_placement(&mut self, i: usize, op: &Op, probe: Option<&PoolProbe>) -> Result<(), Violation> {
        // Every handle form of every live object.
        for (hid, held) in &self.handles {
            let (obj, addr, ver, lay) = (held.obj, held.addr, held.ver, held.lay);
            let now = held.h.addr();
            let form = held.h.form();
            if now != addr {
                return Err(v("address-moved", format!("after op {i} {op:?}: handle {hid} ({form:?}) of #{obj} reports a different address than at insertion")));
            }
            let li = lay_info(lay);
            if addr % li.align != 0 {
                return Err(v("address-misaligned", format!("after op {i} {op:?}: #{obj} (layout {lay}: size {}, align {}) lives at an address with remainder {} modulo its alignment", li.size, li.align, addr % li.align)));
            }
            let how = (i as u32).wrapping_add(*hid) as u8;
            if let Some(seen) = held.h.view(how, obj, ver) {
                if seen.self_addr != addr {
                    return Err(v("deref-address-mismatch", format!("after op {i} {op:?}: reading #{obj} through handle {hid} ({form:?}, accessor {how}) produced a reference to a different address than ptr() at insertion")));
                }
                if !seen.ok {
                    return Err(v("canary-mismatch", format!("after op {i} {op:?}: #{obj} read through handle {hid} ({form:?}, accessor {how}) does not hold the stored bytes (version {ver})")));
                }
            }
        }
        // Non-overlap of live objects (sorted sweep). Objects whose handles were all forgotten
        // (raw pools) are still alive and take part.
        let mut prev: Option<(usize, usize, u32)> = None;
        for (addr, (id, size)) in &self.live {
            let size = *size;
            if let Some((pa, ps, pid)) = prev {
                if pa + ps > *addr {
                    return Err(v("objects-overlap", format!("after op {i} {op:?}: live objects #{pid} ({ps} bytes) and #{id} overlap by {} bytes", pa + ps - addr)));
                }
            }
            prev = Some((*addr, size, *id));
        }
        let Some(pr) = probe else { return Ok(()) };
        // H1 probe: geometry.
        let li = lay_info(self.sc.layouts[0]);
        if pr.object_size != li.size || pr.object_align != li.align {
            return Err(v("probe-geometry", format!("after op {i} {op:?}: pool object layout ({}, {}) is not the layout of its type ({}, {})", pr.object_size, pr.object_align, li.size, li.align)));
        }
        if pr.slot_to_object_offset % li.align != 0 || pr.slot_stride % li.align != 0 || pr.slot_to_object_offset + li.size > pr.slot_stride {
            return Err(v("probe-geometry", format!("after op {i} {op:?}: slot stride {} / object offset {} cannot hold an aligned object of size {} align {}", pr.slot_stride, pr.slot_to_object_offset, li.size, li.align)));
        }
        if self.sc.slab_cap > 0 && pr.slab_capacity != self.sc.slab_cap {
            return Err(v("harness-bug", format!("slab capacity override {} not in effect ({})", self.sc.slab_cap, pr.slab_capacity)));
        }
        if pr.length != self.live.len() {
            return Err(v("probe-length", format!("after op {i} {op:?}: pool bookkeeping length {} but {} live objects", pr.length, self.live.len())));
        }
        if pr.vacancy_bits.len() != pr.slabs.len() {
            return Err(v("probe-vacancy-bit", format!("after op {i} {op:?}: {} vacancy bits for {} slabs", pr.vacancy_bits.len(), pr.slabs.len())));
        }
        let mut first_vacant = None;
        let mut occupied: Vec<usize> = Vec::with_capacity(self.live.len());
        let mut ranges: Vec<(usize, usize)> = Vec::with_capacity(pr.slabs.len());
        for (si, s) in pr.slabs.iter().enumerate() {
            if s.base % li.align != 0 {
                return Err(v("slab-misaligned", format!("after op {i} {op:?}: slab {si} starts at an address with remainder {} modulo the object alignment {}", s.base % li.align, li.align)));
            }
            if s.bytes != pr.slot_stride * pr.slab_capacity || s.occupied.len() != pr.slab_capacity {
                return Err(v("probe-geometry", format!("after op {i} {op:?}: slab {si} has {} bytes / {} tags for {} slots of stride {}", s.bytes, s.occupied.len(), pr.slab_capacity, pr.slot_stride)));
            }
            ranges.push((s.base, s.bytes));
            let n_occ = s.occupied.iter().filter(|b| **b).count();
            if n_occ != s.count {
                return Err(v("probe-slab-count", format!("after op {i} {op:?}: slab {si} counts {} objects but {n_occ} slots are tagged occupied", s.count)));
            }
            if s.free_list_len != pr.slab_capacity - s.count.min(pr.slab_capacity) {
                return Err(v("probe-free-list", format!("after op {i} {op:?}: slab {si} holds {} of {} objects but its free list has {} entries", s.count, pr.slab_capacity, if s.free_list_len == usize::MAX { "a broken chain of".to_owned() } else { s.free_list_len.to_string() })));
            }
            let vacant = s.count < pr.slab_capacity;
            if pr.vacancy_bits[si] != vacant {
                return Err(v("probe-vacancy-bit", format!("after op {i} {op:?}: slab {si} holds {} of {} objects but its vacancy bit is {}", s.count, pr.slab_capacity, pr.vacancy_bits[si])));
            }
            if vacant && first_vacant.is_none() {
                first_vacant = Some(si);
            }
            for (k, o) in s.occupied.iter().enumerate() {
                if *o {
                    occupied.push(s.base + k * pr.slot_stride + pr.slot_to_object_offset);
                }
            }
        }
        if pr.next_vacancy != first_vacant {
            return Err(v("probe-next-vacancy", format!("after op {i} {op:?}: cached lowest vacant slab {:?}, actual {first_vacant:?} ({} slabs)", pr.next_vacancy, pr.slabs.len())));
        }
        ranges.sort_unstable();
        for w in ranges.windows(2) {
            if w[0].0 + w[0].1 > w[1].0 {
                return Err(v("slabs-overlap", format!("after op {i} {op:?}: two slabs' memory blocks overlap")));
            }
        }
        occupied.sort_unstable();
        let same = occupied.len() == self.live.len() && occupied.iter().zip(self.live.keys()).all(|(a, b)| a == b);
        if !same {
            let outside = self.live.keys().filter(|a| occupied.binary_search(a).is_err()).count();
            return Err(v("probe-occupancy", format!("after op {i} {op:?}: {} slots are tagged occupied, the model has {} live objects; {outside} live object(s) do not sit at slot*stride+offset of an occupied slot of an allocated slab", occupied.len(), self.live.len())));
        }
        Ok(())
    }

    fn check_accounting(&mut self, i: usize, op: &Op) -> Result<(), Violation> {
        if self.pools.is_empty() {
            return Ok(());
        }
        let pi = i % self.pools.len();
        let n = self.live.len();
        let (len, empty) = (self.pools[pi].plen(), self.pools[pi].pempty());
        if len != n || empty != (n == 0) {
            return Err(v("len-mismatch", format!("after op {i} {op:?}: len() = {len}, is_empty() = {empty}, the model has {n} live objects")));
        }
        // Capacity per layout group.
        let inserted_group = match op {
            Op::Insert { lay, how, .. } if self.insertable.contains(lay) => Some((self.group_of(*lay), *how == InsHow::WithPanic)),
            _ => None,
        };
        for g in self.groups.clone() {
            let cap = self.pools[pi].cap(g);
            let live_g = self.live_in(g);
            if cap < live_g {
                return Err(v("capacity-below-len", format!("after op {i} {op:?}: capacity {cap} (layout group {g}) < {live_g} live objects")));
            }
            if self.sc.slab_cap > 0 && cap % self.sc.slab_cap != 0 {
                return Err(v("capacity-not-slab-multiple", format!("after op {i} {op:?}: capacity {cap} is not a multiple of the slab capacity {}", self.sc.slab_cap)));
            }
            if let Some(before) = self.caps.get(&g).copied() {
                if !matches!(op, Op::Shrink { .. } | Op::Reserve { .. }) {
                    if cap < before {
                        return Err(v("capacity-shrank", format!("after op {i} {op:?}: capacity (layout group {g}) went {before} -> {cap} without shrink_to_fit")));
                    }
                    if cap > before {
                        // "capacity() is the number of objects the pool can hold without
                        // extension": only an insert into a full pool may extend it.
                        let ok = match inserted_group {
                            Some((ig, panicked)) if ig == g => {
                                let len_before = if panicked { live_g } else { live_g - 1 };
                                len_before == before
                            }
                            _ => false,
                        };
                        if !ok {
                            return Err(v("capacity-grew-with-vacancy", format!("after op {i} {op:?}: capacity (layout group {g}) grew {before} -> {cap} although the pool was not full ({live_g} live objects now)")));
                        }
                        self.ctx.probe("insert-grew-capacity");
                    }
                }
            }
            self.caps.insert(g, cap);
        }
        if self.sc.shape != Shape::Blind {
            self.check_iteration(i, pi, (i % 5) as u8, false)?;
            if n <= 16 {
                for d in 0..5_u8 {
                    if d != (i % 5) as u8 {
                        self.check_iteration(i, pi, d, false)?;
                    }
                }
            }
        }
        Ok(())
    }

    /// End of the history: the remaining handles and pool values go away in the scenario's order.
    fn finish(&mut self) -> Result<(), Violation> {
        let sc = self.sc;
        let n_ops = sc.ops.len();
        let end_op = Op::Shrink { via: 255 };
        if sc.access == Access::Raw {
            if sc.end.empty_first {
                let mut objs: Vec<u32> = self.live.values().map(|x| x.0).collect();
                objs.sort_unstable();
                if sc.end.reverse {
                    objs.reverse();
                }
                for obj in objs {
                    // Through a handle if one is left; objects whose handles were all forgotten
                    // stay in the pool.
                    let Some(hid) = self.handles.iter().find(|(_, h)| h.obj == obj).map(|(k, _)| *k) else { continue };
                    let op = Op::Release { h: hid, remove: true };
                    if let Some(exp) = self.apply(n_ops, &op)? {
                        self.check_after(n_ops, &op, &exp)?;
                    }
                }
            }
            let live: Vec<u32> = self.live.values().map(|x| x.0).collect();
            let n_live = live.len();
            if sc.end.plain_touch {
                // A value without a destructor passes through every inner pool: nothing the model can see.
                let lays: Vec<u8> = self.insertable.iter().copied().filter(|l| lay_info(*l).size <= 65_536).collect();
                let mut touched = false;
                if let Some(p) = self.pools.last_mut() {
                    for l in lays {
                        touched |= p.plain_touch(l);
                    }
                }
                if touched {
                    self.ctx.probe(if n_live > 0 { "plain-data-inserted-last-among-live-objects" } else { "plain-data-inserted-last" });
                    self.check_after(n_ops, &end_op, &[])?;
                }
            }
            let Some(pool) = self.pools.pop() else { return Ok(()) };
            // Inert handles are released first (nothing happens).
            for (_, h) in std::mem::take(&mut self.handles) {
                h.h.release(None);
            }
            board(|b| b.pool_dropping = true);
            let r = catch_unwind(AssertUnwindSafe(move || drop(pool)));
            board(|b| b.pool_dropping = false);
            let panicked = match &r {
                Ok(()) => false,
                Err(p) => {
                    let m = simkit::panic_message(p);
                    if !m.contains("DropPolicy::MustNotDropContents") {
                        resume_unwind(r.expect_err("checked"));
                    }
                    true
                }
            };
            self.ctx.event(0x9000 + u64::from(panicked) + ((n_live as u64) << 4), || format!("end: drop raw pool ({}) holding {n_live} objects: {}", if sc.must_not_drop { "MustNotDropContents" } else { "MayDropContents" }, if panicked { "panicked" } else { "returned" }));
            self.flag(n_ops, &end_op)?;
            let mut destroyed = board(|b| std::mem::take(&mut b.destroyed_now));
            destroyed.sort_unstable();
            if self.accounting {
                if sc.must_not_drop {
                    if panicked != (n_live > 0) {
                        return Err(v("drop-policy-violated", format!("dropping a MustNotDropContents pool holding {n_live} objects {}", if panicked { "panicked" } else { "did not panic" })));
                    }
                    self.ctx.probe(if panicked { "must-not-drop-panicked" } else { "must-not-drop-empty-ok" });
                    // Whether the contents are destroyed in that case is not specified: 0 or 1.
                    if destroyed.iter().any(|d| !live.contains(d)) {
                        return Err(v("destroyed-unexpectedly", format!("pool drop destroyed {destroyed:?}, live were {live:?}")));
                    }
                } else {
                    if panicked {
                        return Err(v("drop-policy-violated", format!("dropping a MayDropContents pool holding {n_live} objects panicked")));
                    }
                    let mut want = live.clone();
                    want.sort_unstable();
                    if destroyed != want {
                        let class = if destroyed.iter().any(|d| !want.contains(d)) { "destroyed-unexpectedly" } else { "not-destroyed" };
                        return Err(v(class, format!("dropping a MayDropContents pool destroyed {destroyed:?}, the model expects {want:?}")));
                    }
                    if n_live > 0 {
                        self.ctx.probe("pool-drop-destroyed-contents");
                    }
                }
            }
            self.live.clear();
            return Ok(());
        }

        // Managed / local.
        let drop_pools = |this: &mut Self| -> Result<(), Violation> {
            while let Some(p) = this.pools.pop() {
                let left = this.pools.len();
                this.ctx.event(0x9100 + left as u64, || format!("end: drop pool value ({left} left, {} live objects)", this.live.len()));
                if left == 0 && !this.live.is_empty() {
                    this.ctx.probe("all-pool-values-dropped-while-handles-live");
                }
                drop(p);
                this.check_after(n_ops, &end_op, &[])?;
            }
            Ok(())
        };
        if sc.end.pools_first {
            drop_pools(self)?;
        }
        let mut hids: Vec<u32> = self.handles.keys().copied().collect();
        if sc.end.reverse {
            hids.reverse();
        }
        for hid in hids {
            let op = Op::Release { h: hid, remove: true };
            if let Some(exp) = self.apply(n_ops, &op)? {
                self.check_after(n_ops, &op, &exp)?;
            }
        }
        drop_pools(self)?;
        if self.accounting {
            // Every object ever inserted was destroyed exactly once or extracted.
            let bad = board(|b| {
                b.objs
                    .iter()
                    .find(|(_, o)| !((o.state == St::Destroyed && o.drops == 1) || (o.state == St::Extracted && o.drops == 0 && o.value_drops == 1)))
                    .map(|(id, o)| (*id, o.clone()))
            });
            if let Some((id, o)) = bad {
                return Err(v("not-destroyed", format!("at the end object #{id} is {:?} with {} destructor runs in the pool and {} outside", o.state, o.drops, o.value_drops)));
            }
        }
        Ok(())
    }

    /// The system allocator hands out 16-byte aligned blocks, so whether a slab of over-aligned
    /// objects happens to be aligned depends on the state of the heap. To make the alignment
    /// oracle independent of that, every placement run of an over-aligned type first fills a
    /// scratch pool of the same kind with single-slot slabs, perturbing the heap between them.
    fn alignment_prelude(&mut self) -> Result<(), Violation> {
        let sc = self.sc;
        let mut done: Vec<u8> = Vec::new();
        for lay in self.insertable.clone() {
            let li = lay_info(lay);
            let g = self.group_of(lay);
            if li.align <= 16 || li.size >= 65_536 || done.contains(&g) {
                continue;
            }
            done.push(g);
            let k: u32 = if cfg!(miri) {
                2
            } else {
                match li.align {
                    32 => 16,
                    64 => 10,
                    _ => 6,
                }
            };
            set_slab_capacity(1);
            let mut pool = new_pool(sc.access, sc.shape, sc.layouts[0], false, sc.via_layout);
            let mut perturb: Vec<Vec<u8>> = Vec::new();
            let mut hs: Vec<(u32, BoxHandle)> = Vec::new();
            let mut bad: Option<(u32, usize)> = None;
            for j in 0..k {
                perturb.push(Vec::with_capacity(24 + 16 * (j as usize % 7)));
                let id = 3_000_000_000 + u32::from(lay) * 1000 + j;
                let h = pool.ins(lay, id, InsHow::Plain);
                let addr = h.addr();
                board(|b| {
                    b.objs.insert(id, ObjRec { addr, ver: 0, lay, refs: 0, drops: 0, value_drops: 0, state: St::Live });
                    b.by_addr.insert(addr, id);
                });
                if addr % li.align != 0 && bad.is_none() {
                    bad = Some((j, addr % li.align));
                }
                hs.push((id, h));
            }
            self.ctx.event(0xA000 + u64::from(lay), || format!("alignment prelude: {k} single-slot slabs of layout {lay} (size {} align {})", li.size, li.align));
            self.ctx.probe("alignment-prelude");
            if let Some((j, rem)) = bad {
                for (_, h) in hs {
                    std::mem::forget(h);
                }
                std::mem::forget(pool);
                return Err(v("address-misaligned", format!("alignment prelude: object {j} of {k} of layout {lay} (size {}, align {}) in a fresh single-slot slab lives at an address with remainder {rem} modulo its alignment", li.size, li.align)));
            }
            let raw = sc.access == Access::Raw;
            for (_, h) in hs {
                if raw {
                    h.release(Some(pool.as_mut()));
                } else {
                    h.release(None);
                }
            }
            drop(pool);
            drop(perturb);
            board(|b| b.destroyed_now.clear());
            set_slab_capacity(sc.slab_cap);
        }
        Ok(())
    }

    fn go(&mut self) -> Result<bool, Violation> {
        let sc = self.sc;
        self.ctx.event(
            sc.access as u64 * 64 + sc.shape as u64 * 16 + sc.slab_cap as u64 * 1024 + u64::from(sc.must_not_drop),
            || format!("pool {:?}{:?} layouts {:?} slab capacity {} must_not_drop {} via_layout {}", sc.access, sc.shape, sc.layouts, sc.slab_cap, sc.must_not_drop, sc.via_layout),
        );
        self.ctx.probe(&format!("kind:{:?}{:?}", sc.access, sc.shape));
        self.ctx.probe(&format!("slab-capacity:{}", sc.slab_cap));
        if self.placement {
            self.alignment_prelude()?;
        }
        let pool = new_pool(sc.access, sc.shape, sc.layouts[0], sc.must_not_drop, sc.via_layout);
        self.pools.push(pool);
        if self.sc.shape == Shape::Blind {
            let mut gs: Vec<u8> = sc.layouts.iter().map(|l| layout_group(*l)).collect();
            gs.sort_unstable();
            let before = gs.len();
            gs.dedup();
            if gs.len() < before {
                self.ctx.probe("blind-two-types-one-inner-pool");
            }
        }
        for (i, op) in sc.ops.iter().enumerate() {
            if let Some(expected) = self.apply(i, op)? {
                self.check_after(i, op, &expected)?;
            }
        }
        let slabs_before_end = self.max_slabs;
        self.finish()?;
        let mut nontrivial = slabs_before_end >= 2;
        if self.accounting && sc.access != Access::Raw {
            // (separately counted, not required)
            if self.shared_multi_drop {
                self.ctx.probe("run-with-shared-handle-dropped-while-clones-left");
            }
        }
        if slabs_before_end > 64 {
            self.ctx.probe("run-crossed-64-slab-block");
        }
        if self.checked_ops < 2 {
            nontrivial = false;
        }
        Ok(nontrivial)
    }
}

fn run_inner(sc: &PoolScenario, ctx: &mut Ctx) -> Result<bool, Violation> {
    board_reset();
    set_slab_capacity(sc.slab_cap);
    // Nothing is dropped implicitly: after a violation (or an escaping panic) the pool may be
    // corrupt, so its handles and pool values are leaked rather than destroyed.
    let mut runner = ManuallyDrop::new(Runner::new(sc, ctx));
    let r = runner.go();
    if r.is_ok() {
        // SAFETY: not used afterwards.
        unsafe { ManuallyDrop::drop(&mut runner) };
    }
    set_slab_capacity(0);
    let leftover = board(|b| b.flag.take());
    board_reset();
    if let (Ok(_), Some((class, detail))) = (&r, leftover) {
        if sc.oracle == Oracle::Accounting {
            return Err(v(class, format!("at the end: {detail}")));
        }
    }
    r
}

pub fn run(sc: &PoolScenario, ctx: &mut Ctx) -> Result<bool, Violation> {
    if sc.layouts.is_empty() {
        return Ok(false);
    }
    let huge = sc.layouts.iter().any(|l| lay_info(*l).size >= 65_536);
    if huge && !cfg!(miri) {
        // Megabyte-sized values travel by value through several frames: use a roomy stack.
        std::thread::scope(|s| {
            let h = std::thread::Builder::new()
                .stack_size(256 << 20)
                .spawn_scoped(s, || run_inner(sc, ctx))
                .expect("spawn");
            match h.join() {
                Ok(r) => r,
                Err(p) => resume_unwind(p),
            }
        })
    } else {
        run_inner(sc, ctx)
    }
}
