//! One uniform, object-safe view of the nine real pool types of `infinity_pool` and of every
//! handle form they hand out. Everything behind these traits is the real code.

use std::any::Any;
use std::borrow::{Borrow, BorrowMut};
use std::mem::MaybeUninit;
use std::ptr::NonNull;

use infinity_pool::verif::PoolProbe;
use infinity_pool::{
    BlindPool, BlindPooled, BlindPooledMut, DropPolicy, LocalBlindPool, LocalBlindPooled,
    LocalBlindPooledMut, LocalOpaquePool, LocalPinnedPool, LocalPooled, LocalPooledMut, OpaquePool,
    PinnedPool, Pooled, PooledMut, RawBlindPool, RawBlindPooled, RawBlindPooledMut, RawOpaquePool,
    RawPinnedPool, RawPooled, RawPooledMut, define_pooled_dyn_cast,
};
use serde::{Deserialize, Serialize};

use crate::dispatch;
use crate::payload::{Injected, Obj, Pay, board, lay_info};

define_pooled_dyn_cast!(Obj);

#[derive(Clone, Copy, Debug, PartialEq, Eq, Serialize, Deserialize)]
pub enum Form {
    Uniq,
    Shared,
    UniqDyn,
    SharedDyn,
    UniqErased,
    SharedErased,
}

impl Form {
    pub fn is_shared(self) -> bool {
        matches!(self, Form::Shared | Form::SharedDyn | Form::SharedErased)
    }
    pub fn is_typed(self) -> bool {
        matches!(self, Form::Uniq | Form::Shared)
    }
    pub fn is_erased(self) -> bool {
        matches!(self, Form::UniqErased | Form::SharedErased)
    }
    pub fn shared(self) -> Form {
        match self {
            Form::Uniq | Form::Shared => Form::Shared,
            Form::UniqDyn | Form::SharedDyn => Form::SharedDyn,
            Form::UniqErased | Form::SharedErased => Form::SharedErased,
        }
    }
    pub fn erased(self) -> Form {
        if self.is_shared() { Form::SharedErased } else { Form::UniqErased }
    }
    pub fn dynamic(self) -> Form {
        if self.is_shared() { Form::SharedDyn } else { Form::UniqDyn }
    }
}

#[derive(Clone, Copy, Debug, PartialEq, Eq, Serialize, Deserialize)]
pub enum Access {
    Raw,
    Local,
    Managed,
}

#[derive(Clone, Copy, Debug, PartialEq, Eq, Serialize, Deserialize)]
pub enum Shape {
    Opaque,
    Pinned,
    Blind,
}

#[derive(Clone, Copy, Debug, PartialEq, Eq, Serialize, Deserialize)]
pub enum InsHow {
    Plain,
    With,
    Unchecked,
    WithUnchecked,
    /// `insert_with` whose closure panics before writing anything (fault modes only).
    WithPanic,
}

/// What a read through a handle saw.
#[derive(Clone, Copy, Debug)]
pub struct Seen {
    /// Address of the reference the accessor produced.
    pub self_addr: usize,
    /// The bytes are the canary of the expected (id, version).
    pub ok: bool,
}

/// Result of `into_inner` / `remove_unpin`, evaluated at the instant of extraction.
#[derive(Clone, Copy, Debug)]
pub struct Taken {
    pub value_ok: bool,
    pub pool_drops_at_return: u32,
    pub value_drops_after_drop: u32,
}

pub type BoxHandle = Box<dyn HandleOps>;
pub type BoxPool = Box<dyn PoolOps>;

/// Object-safe view of one real handle. `Err(self)` = the form does not support the operation.
pub trait HandleOps {
    fn form(&self) -> Form;
    /// Thin address of the target object (never logged or hashed).
    fn addr(&self) -> usize;
    /// Reads the object through accessor number `how` (`None` for erased forms).
    fn view(&self, how: u8, id: u32, ver: u32) -> Option<Seen>;
    /// Rewrites the object through an exclusive accessor (unique, non-erased forms).
    fn write(&mut self, how: u8, id: u32, ver: u32) -> Option<Seen>;
    fn try_clone(&self) -> Option<BoxHandle>;
    fn into_shared(self: Box<Self>, via_from: bool) -> Result<BoxHandle, BoxHandle>;
    fn erase(self: Box<Self>) -> Result<BoxHandle, BoxHandle>;
    fn cast_dyn(self: Box<Self>) -> Result<BoxHandle, BoxHandle>;
    /// `into_inner` (managed / local) or `pool.remove_unpin(handle)` (raw).
    fn take(self: Box<Self>, pool: Option<&mut (dyn PoolOps + 'static)>, id: u32, ver: u32) -> Result<Taken, BoxHandle>;
    /// Managed / local: drops the handle. Raw: `pool.remove(handle)` if a pool is given,
    /// otherwise the (inert) handle is simply forgotten.
    fn release(self: Box<Self>, pool: Option<&mut (dyn PoolOps + 'static)>);
}

pub struct Iterated {
    pub exact_len: usize,
    pub addrs: Vec<usize>,
    /// `len()` and `size_hint()` counted down by exactly one per item and the iterator stayed
    /// exhausted after the first `None`.
    pub len_consistent: bool,
}

/// Removal through the two typed-or-untyped raw pools without naming the object type.
pub trait RawRemove {
    fn as_any_mut(&mut self) -> &mut dyn Any;
    /// # Safety
    /// The handle must be for an object present in this pool.
    unsafe fn rm_dyn(&mut self, h: RawPooled<dyn Obj>);
    /// # Safety
    /// The handle must be for an object present in this pool.
    unsafe fn rm_erased(&mut self, h: RawPooled<()>);
}

impl RawRemove for RawOpaquePool {
    fn as_any_mut(&mut self) -> &mut dyn Any {
        self
    }
    unsafe fn rm_dyn(&mut self, h: RawPooled<dyn Obj>) {
        // SAFETY: forwarded.
        unsafe { self.remove(h) }
    }
    unsafe fn rm_erased(&mut self, h: RawPooled<()>) {
        // SAFETY: forwarded.
        unsafe { self.remove(h) }
    }
}

impl<T: 'static> RawRemove for RawPinnedPool<T> {
    fn as_any_mut(&mut self) -> &mut dyn Any {
        self
    }
    unsafe fn rm_dyn(&mut self, h: RawPooled<dyn Obj>) {
        // SAFETY: forwarded.
        unsafe { self.remove(h) }
    }
    unsafe fn rm_erased(&mut self, h: RawPooled<()>) {
        // SAFETY: forwarded.
        unsafe { self.remove(h) }
    }
}

/// Object-safe view of one real pool value (a pool or a clone of it).
pub trait PoolOps {
    /// `lay` selects the object type for opaque and blind pools; pinned pools have one type.
    fn ins(&mut self, lay: u8, id: u32, how: InsHow) -> BoxHandle;
    fn plen(&self) -> usize;
    fn pempty(&self) -> bool;
    fn cap(&self, lay: u8) -> usize;
    fn res(&mut self, lay: u8, n: usize);
    fn shr(&mut self);
    fn iterate(&self, dir: u8) -> Option<Iterated>;
    fn clone_pool(&self) -> Option<BoxPool>;
    fn vprobe(&self) -> Option<PoolProbe>;
    fn raw(&mut self) -> Option<&mut dyn RawRemove> {
        None
    }
    fn raw_blind(&mut self) -> Option<&mut RawBlindPool> {
        None
    }
    /// Raw opaque / blind pools: inserts a value of a plain-data type (no destructor) with the layout of menu type
    /// `lay` and removes it again. Says whether it did.
    fn plain_touch(&mut self, _lay: u8) -> bool {
        false
    }
}

fn touch_raw_opaque<T: Pay>(p: &mut RawOpaquePool) {
    let h = p.insert(MaybeUninit::<T>::uninit());
    // SAFETY: the handle was just returned by this pool and is used once.
    unsafe { p.remove(h) };
}

fn touch_raw_blind<T: Pay>(p: &mut RawBlindPool) {
    let h = p.insert(MaybeUninit::<T>::uninit());
    // SAFETY: the handle was just returned by this pool and is used once.
    unsafe { p.remove(h) };
}

fn seen<O: Obj + ?Sized>(r: &O, id: u32, ver: u32) -> Seen {
    Seen {
        self_addr: r.self_addr(),
        ok: r.verify_dyn(id, ver),
    }
}

fn finish_take<T: Pay>(value: T, id: u32, ver: u32) -> Taken {
    let value_ok = value.verify_dyn(id, ver);
    let pool_drops_at_return = board(|b| {
        b.dropping_extracted = Some(id);
        b.objs.get(&id).map_or(u32::MAX, |o| o.drops)
    });
    drop(value);
    let value_drops_after_drop = board(|b| {
        b.dropping_extracted = None;
        b.objs.get(&id).map_or(u32::MAX, |o| o.value_drops)
    });
    Taken {
        value_ok,
        pool_drops_at_return,
        value_drops_after_drop,
    }
}

// ------------------------------------------------------------------------------------------
// Managed (Arc/Mutex) and local (Rc/RefCell) handle families share their API shape.
// ------------------------------------------------------------------------------------------

macro_rules! view_shared_like {
    ($self:ident, $how:expr, $id:expr, $ver:expr, $ty:ty) => {{
        let r: &$ty = match $how % 5 {
            0 => &**$self,
            1 => $self.as_pin().get_ref(),
            2 => AsRef::<$ty>::as_ref($self),
            3 => Borrow::<$ty>::borrow($self),
            // SAFETY: the handle keeps the object alive; no exclusive reference exists.
            _ => unsafe { $self.ptr().as_ref() },
        };
        Some(seen(r, $id, $ver))
    }};
}

macro_rules! write_uniq_like {
    ($self:ident, $how:expr, $id:expr, $ver:expr, $ty:ty) => {{
        let r: &mut $ty = match $how % 4 {
            0 => &mut **$self,
            1 => $self.as_pin_mut().get_mut(),
            2 => AsMut::<$ty>::as_mut($self),
            _ => BorrowMut::<$ty>::borrow_mut($self),
        };
        r.refill_dyn($id, $ver);
        Some(seen(&*r, $id, $ver))
    }};
}

macro_rules! managed_family {
    ($U:ident, $S:ident) => {
        impl<T: Pay> HandleOps for $U<T> {
            fn form(&self) -> Form {
                Form::Uniq
            }
            fn addr(&self) -> usize {
                self.ptr().as_ptr() as usize
            }
            fn view(&self, how: u8, id: u32, ver: u32) -> Option<Seen> {
                view_shared_like!(self, how, id, ver, T)
            }
            fn write(&mut self, how: u8, id: u32, ver: u32) -> Option<Seen> {
                write_uniq_like!(self, how, id, ver, T)
            }
            fn try_clone(&self) -> Option<BoxHandle> {
                None
            }
            fn into_shared(self: Box<Self>, via_from: bool) -> Result<BoxHandle, BoxHandle> {
                Ok(if via_from { Box::new($S::<T>::from(*self)) } else { Box::new((*self).into_shared()) })
            }
            fn erase(self: Box<Self>) -> Result<BoxHandle, BoxHandle> {
                Ok(Box::new((*self).erase()))
            }
            fn cast_dyn(self: Box<Self>) -> Result<BoxHandle, BoxHandle> {
                Ok(Box::new((*self).cast_obj()))
            }
            fn take(self: Box<Self>, _pool: Option<&mut (dyn PoolOps + 'static)>, id: u32, ver: u32) -> Result<Taken, BoxHandle> {
                Ok(finish_take((*self).into_inner(), id, ver))
            }
            fn release(self: Box<Self>, _pool: Option<&mut (dyn PoolOps + 'static)>) {
                drop(self);
            }
        }

        impl<T: Pay> HandleOps for $S<T> {
            fn form(&self) -> Form {
                Form::Shared
            }
            fn addr(&self) -> usize {
                self.ptr().as_ptr() as usize
            }
            fn view(&self, how: u8, id: u32, ver: u32) -> Option<Seen> {
                view_shared_like!(self, how, id, ver, T)
            }
            fn write(&mut self, _how: u8, _id: u32, _ver: u32) -> Option<Seen> {
                None
            }
            fn try_clone(&self) -> Option<BoxHandle> {
                Some(Box::new(self.clone()))
            }
            fn into_shared(self: Box<Self>, _via_from: bool) -> Result<BoxHandle, BoxHandle> {
                Err(self)
            }
            fn erase(self: Box<Self>) -> Result<BoxHandle, BoxHandle> {
                Ok(Box::new((*self).erase()))
            }
            fn cast_dyn(self: Box<Self>) -> Result<BoxHandle, BoxHandle> {
                Ok(Box::new((*self).cast_obj()))
            }
            fn take(self: Box<Self>, _pool: Option<&mut (dyn PoolOps + 'static)>, _id: u32, _ver: u32) -> Result<Taken, BoxHandle> {
                Err(self)
            }
            fn release(self: Box<Self>, _pool: Option<&mut (dyn PoolOps + 'static)>) {
                drop(self);
            }
        }

        impl HandleOps for $U<dyn Obj> {
            fn form(&self) -> Form {
                Form::UniqDyn
            }
            fn addr(&self) -> usize {
                self.ptr().as_ptr().cast::<()>() as usize
            }
            fn view(&self, how: u8, id: u32, ver: u32) -> Option<Seen> {
                view_shared_like!(self, how, id, ver, dyn Obj)
            }
            fn write(&mut self, how: u8, id: u32, ver: u32) -> Option<Seen> {
                write_uniq_like!(self, how, id, ver, dyn Obj)
            }
            fn try_clone(&self) -> Option<BoxHandle> {
                None
            }
            fn into_shared(self: Box<Self>, via_from: bool) -> Result<BoxHandle, BoxHandle> {
                Ok(if via_from { Box::new($S::<dyn Obj>::from(*self)) } else { Box::new((*self).into_shared()) })
            }
            fn erase(self: Box<Self>) -> Result<BoxHandle, BoxHandle> {
                Ok(Box::new((*self).erase()))
            }
            fn cast_dyn(self: Box<Self>) -> Result<BoxHandle, BoxHandle> {
                Err(self)
            }
            fn take(self: Box<Self>, _pool: Option<&mut (dyn PoolOps + 'static)>, _id: u32, _ver: u32) -> Result<Taken, BoxHandle> {
                Err(self)
            }
            fn release(self: Box<Self>, _pool: Option<&mut (dyn PoolOps + 'static)>) {
                drop(self);
            }
        }

        impl HandleOps for $S<dyn Obj> {
            fn form(&self) -> Form {
                Form::SharedDyn
            }
            fn addr(&self) -> usize {
                self.ptr().as_ptr().cast::<()>() as usize
            }
            fn view(&self, how: u8, id: u32, ver: u32) -> Option<Seen> {
                view_shared_like!(self, how, id, ver, dyn Obj)
            }
            fn write(&mut self, _how: u8, _id: u32, _ver: u32) -> Option<Seen> {
                None
            }
            fn try_clone(&self) -> Option<BoxHandle> {
                Some(Box::new(self.clone()))
            }
            fn into_shared(self: Box<Self>, _via_from: bool) -> Result<BoxHandle, BoxHandle> {
                Err(self)
            }
            fn erase(self: Box<Self>) -> Result<BoxHandle, BoxHandle> {
                Ok(Box::new((*self).erase()))
            }
            fn cast_dyn(self: Box<Self>) -> Result<BoxHandle, BoxHandle> {
                Err(self)
            }
            fn take(self: Box<Self>, _pool: Option<&mut (dyn PoolOps + 'static)>, _id: u32, _ver: u32) -> Result<Taken, BoxHandle> {
                Err(self)
            }
            fn release(self: Box<Self>, _pool: Option<&mut (dyn PoolOps + 'static)>) {
                drop(self);
            }
        }

        impl HandleOps for $U<()> {
            fn form(&self) -> Form {
                Form::UniqErased
            }
            fn addr(&self) -> usize {
                self.ptr().as_ptr() as usize
            }
            fn view(&self, _how: u8, _id: u32, _ver: u32) -> Option<Seen> {
                None
            }
            fn write(&mut self, _how: u8, _id: u32, _ver: u32) -> Option<Seen> {
                None
            }
            fn try_clone(&self) -> Option<BoxHandle> {
                None
            }
            fn into_shared(self: Box<Self>, via_from: bool) -> Result<BoxHandle, BoxHandle> {
                Ok(if via_from { Box::new($S::<()>::from(*self)) } else { Box::new((*self).into_shared()) })
            }
            fn erase(self: Box<Self>) -> Result<BoxHandle, BoxHandle> {
                Err(self)
            }
            fn cast_dyn(self: Box<Self>) -> Result<BoxHandle, BoxHandle> {
                Err(self)
            }
            fn take(self: Box<Self>, _pool: Option<&mut (dyn PoolOps + 'static)>, _id: u32, _ver: u32) -> Result<Taken, BoxHandle> {
                Err(self)
            }
            fn release(self: Box<Self>, _pool: Option<&mut (dyn PoolOps + 'static)>) {
                drop(self);
            }
        }

        impl HandleOps for $S<()> {
            fn form(&self) -> Form {
                Form::SharedErased
            }
            fn addr(&self) -> usize {
                self.ptr().as_ptr() as usize
            }
            fn view(&self, _how: u8, _id: u32, _ver: u32) -> Option<Seen> {
                None
            }
            fn write(&mut self, _how: u8, _id: u32, _ver: u32) -> Option<Seen> {
                None
            }
            fn try_clone(&self) -> Option<BoxHandle> {
                Some(Box::new(self.clone()))
            }
            fn into_shared(self: Box<Self>, _via_from: bool) -> Result<BoxHandle, BoxHandle> {
                Err(self)
            }
            fn erase(self: Box<Self>) -> Result<BoxHandle, BoxHandle> {
                Err(self)
            }
            fn cast_dyn(self: Box<Self>) -> Result<BoxHandle, BoxHandle> {
                Err(self)
            }
            fn take(self: Box<Self>, _pool: Option<&mut (dyn PoolOps + 'static)>, _id: u32, _ver: u32) -> Result<Taken, BoxHandle> {
                Err(self)
            }
            fn release(self: Box<Self>, _pool: Option<&mut (dyn PoolOps + 'static)>) {
                drop(self);
            }
        }
    };
}

managed_family!(PooledMut, Pooled);
managed_family!(BlindPooledMut, BlindPooled);
managed_family!(LocalPooledMut, LocalPooled);
managed_family!(LocalBlindPooledMut, LocalBlindPooled);

// ------------------------------------------------------------------------------------------
// Raw handle families: inert fat pointers; access and removal are explicit and unsafe. The
// harness only dereferences / removes handles of objects its model says are alive.
// ------------------------------------------------------------------------------------------

/// # Safety
/// The handle must be for an object present in the pool.
unsafe fn rm_typed<T: Pay>(r: &mut dyn RawRemove, h: RawPooled<T>) {
    let any = r.as_any_mut();
    // SAFETY: forwarded.
    unsafe {
        if any.is::<RawOpaquePool>() {
            any.downcast_mut::<RawOpaquePool>().expect("checked").remove(h);
        } else {
            any.downcast_mut::<RawPinnedPool<T>>().expect("harness: raw pool type").remove(h);
        }
    }
}

/// # Safety
/// The handle must be for an object present in the pool.
unsafe fn take_typed<T: Pay>(r: &mut dyn RawRemove, h: RawPooled<T>) -> T {
    let any = r.as_any_mut();
    // SAFETY: forwarded.
    unsafe {
        if any.is::<RawOpaquePool>() {
            any.downcast_mut::<RawOpaquePool>().expect("checked").remove_unpin(h)
        } else {
            any.downcast_mut::<RawPinnedPool<T>>().expect("harness: raw pool type").remove_unpin(h)
        }
    }
}

macro_rules! raw_rm {
    (plain, typed, $pool:expr, $h:expr) => {
        rm_typed($pool.raw().expect("harness: raw pool"), $h)
    };
    (plain, dynamic, $pool:expr, $h:expr) => {
        $pool.raw().expect("harness: raw pool").rm_dyn($h)
    };
    (plain, erased, $pool:expr, $h:expr) => {
        $pool.raw().expect("harness: raw pool").rm_erased($h)
    };
    (blind, $any:ident, $pool:expr, $h:expr) => {
        $pool.raw_blind().expect("harness: raw blind pool").remove($h)
    };
}

macro_rules! raw_take {
    (plain, $pool:expr, $h:expr) => {
        take_typed($pool.raw().expect("harness: raw pool"), $h)
    };
    (blind, $pool:expr, $h:expr) => {
        $pool.raw_blind().expect("harness: raw blind pool").remove_unpin($h)
    };
}

macro_rules! view_raw {
    ($self:ident, $how:expr, $id:expr, $ver:expr, $ty:ty) => {{
        // SAFETY: the model says the object is alive and the pool outlives this reference; no
        // exclusive reference exists while it is used.
        let r: &$ty = unsafe {
            match $how % 3 {
                0 => $self.as_ref(),
                1 => $self.as_pin().get_ref(),
                _ => $self.ptr().as_ref(),
            }
        };
        Some(seen(r, $id, $ver))
    }};
}

macro_rules! write_raw {
    ($self:ident, $how:expr, $id:expr, $ver:expr, $ty:ty) => {{
        // SAFETY: unique handle of a live object; no other reference exists.
        let r: &mut $ty = unsafe {
            match $how % 2 {
                0 => $self.as_mut(),
                _ => $self.as_pin_mut().get_mut(),
            }
        };
        r.refill_dyn($id, $ver);
        Some(seen(&*r, $id, $ver))
    }};
}

macro_rules! raw_family {
    ($U:ident, $S:ident, $k:ident) => {
        impl<T: Pay> HandleOps for $U<T> {
            fn form(&self) -> Form {
                Form::Uniq
            }
            fn addr(&self) -> usize {
                self.ptr().as_ptr() as usize
            }
            fn view(&self, how: u8, id: u32, ver: u32) -> Option<Seen> {
                view_raw!(self, how, id, ver, T)
            }
            fn write(&mut self, how: u8, id: u32, ver: u32) -> Option<Seen> {
                write_raw!(self, how, id, ver, T)
            }
            fn try_clone(&self) -> Option<BoxHandle> {
                None
            }
            fn into_shared(self: Box<Self>, via_from: bool) -> Result<BoxHandle, BoxHandle> {
                Ok(if via_from { Box::new($S::<T>::from(*self)) } else { Box::new((*self).into_shared()) })
            }
            fn erase(self: Box<Self>) -> Result<BoxHandle, BoxHandle> {
                Ok(Box::new((*self).erase()))
            }
            fn cast_dyn(self: Box<Self>) -> Result<BoxHandle, BoxHandle> {
                // SAFETY: the object is alive in its pool.
                Ok(Box::new(unsafe { (*self).cast_obj() }))
            }
            fn take(self: Box<Self>, pool: Option<&mut (dyn PoolOps + 'static)>, id: u32, ver: u32) -> Result<Taken, BoxHandle> {
                let pool = pool.expect("harness: raw take needs the pool");
                // SAFETY: the model says the object is present in this pool.
                let v: T = unsafe { raw_take!($k, pool, (*self).into_shared()) };
                Ok(finish_take(v, id, ver))
            }
            fn release(self: Box<Self>, pool: Option<&mut (dyn PoolOps + 'static)>) {
                if let Some(pool) = pool {
                    // SAFETY: the model says the object is present in this pool.
                    unsafe { raw_rm!($k, typed, pool, (*self).into_shared()) }
                }
            }
        }

        impl<T: Pay> HandleOps for $S<T> {
            fn form(&self) -> Form {
                Form::Shared
            }
            fn addr(&self) -> usize {
                self.ptr().as_ptr() as usize
            }
            fn view(&self, how: u8, id: u32, ver: u32) -> Option<Seen> {
                view_raw!(self, how, id, ver, T)
            }
            fn write(&mut self, _how: u8, _id: u32, _ver: u32) -> Option<Seen> {
                None
            }
            fn try_clone(&self) -> Option<BoxHandle> {
                Some(Box::new(*self))
            }
            fn into_shared(self: Box<Self>, _via_from: bool) -> Result<BoxHandle, BoxHandle> {
                Err(self)
            }
            fn erase(self: Box<Self>) -> Result<BoxHandle, BoxHandle> {
                Ok(Box::new((*self).erase()))
            }
            fn cast_dyn(self: Box<Self>) -> Result<BoxHandle, BoxHandle> {
                // SAFETY: the object is alive in its pool.
                Ok(Box::new(unsafe { (*self).cast_obj() }))
            }
            fn take(self: Box<Self>, pool: Option<&mut (dyn PoolOps + 'static)>, id: u32, ver: u32) -> Result<Taken, BoxHandle> {
                let pool = pool.expect("harness: raw take needs the pool");
                // SAFETY: the model says the object is present in this pool and no other handle
                // to it will be used again.
                let v: T = unsafe { raw_take!($k, pool, *self) };
                Ok(finish_take(v, id, ver))
            }
            fn release(self: Box<Self>, pool: Option<&mut (dyn PoolOps + 'static)>) {
                if let Some(pool) = pool {
                    // SAFETY: the model says the object is present in this pool.
                    unsafe { raw_rm!($k, typed, pool, *self) }
                }
            }
        }

        impl HandleOps for $U<dyn Obj> {
            fn form(&self) -> Form {
                Form::UniqDyn
            }
            fn addr(&self) -> usize {
                self.ptr().as_ptr().cast::<()>() as usize
            }
            fn view(&self, how: u8, id: u32, ver: u32) -> Option<Seen> {
                view_raw!(self, how, id, ver, dyn Obj)
            }
            fn write(&mut self, how: u8, id: u32, ver: u32) -> Option<Seen> {
                write_raw!(self, how, id, ver, dyn Obj)
            }
            fn try_clone(&self) -> Option<BoxHandle> {
                None
            }
            fn into_shared(self: Box<Self>, via_from: bool) -> Result<BoxHandle, BoxHandle> {
                Ok(if via_from { Box::new($S::<dyn Obj>::from(*self)) } else { Box::new((*self).into_shared()) })
            }
            fn erase(self: Box<Self>) -> Result<BoxHandle, BoxHandle> {
                Ok(Box::new((*self).erase()))
            }
            fn cast_dyn(self: Box<Self>) -> Result<BoxHandle, BoxHandle> {
                Err(self)
            }
            fn take(self: Box<Self>, _pool: Option<&mut (dyn PoolOps + 'static)>, _id: u32, _ver: u32) -> Result<Taken, BoxHandle> {
                Err(self)
            }
            fn release(self: Box<Self>, pool: Option<&mut (dyn PoolOps + 'static)>) {
                if let Some(pool) = pool {
                    // SAFETY: the model says the object is present in this pool.
                    unsafe { raw_rm!($k, dynamic, pool, (*self).into_shared()) }
                }
            }
        }

        impl HandleOps for $S<dyn Obj> {
            fn form(&self) -> Form {
                Form::SharedDyn
            }
            fn addr(&self) -> usize {
                self.ptr().as_ptr().cast::<()>() as usize
            }
            fn view(&self, how: u8, id: u32, ver: u32) -> Option<Seen> {
                view_raw!(self, how, id, ver, dyn Obj)
            }
            fn write(&mut self, _how: u8, _id: u32, _ver: u32) -> Option<Seen> {
                None
            }
            fn try_clone(&self) -> Option<BoxHandle> {
                Some(Box::new(*self))
            }
            fn into_shared(self: Box<Self>, _via_from: bool) -> Result<BoxHandle, BoxHandle> {
                Err(self)
            }
            fn erase(self: Box<Self>) -> Result<BoxHandle, BoxHandle> {
                Ok(Box::new((*self).erase()))
            }
            fn cast_dyn(self: Box<Self>) -> Result<BoxHandle, BoxHandle> {
                Err(self)
            }
            fn take(self: Box<Self>, _pool: Option<&mut (dyn PoolOps + 'static)>, _id: u32, _ver: u32) -> Result<Taken, BoxHandle> {
                Err(self)
            }
            fn release(self: Box<Self>, pool: Option<&mut (dyn PoolOps + 'static)>) {
                if let Some(pool) = pool {
                    // SAFETY: the model says the object is present in this pool.
                    unsafe { raw_rm!($k, dynamic, pool, *self) }
                }
            }
        }

        impl HandleOps for $U<()> {
            fn form(&self) -> Form {
                Form::UniqErased
            }
            fn addr(&self) -> usize {
                self.ptr().as_ptr() as usize
            }
            fn view(&self, _how: u8, _id: u32, _ver: u32) -> Option<Seen> {
                None
            }
            fn write(&mut self, _how: u8, _id: u32, _ver: u32) -> Option<Seen> {
                None
            }
            fn try_clone(&self) -> Option<BoxHandle> {
                None
            }
            fn into_shared(self: Box<Self>, via_from: bool) -> Result<BoxHandle, BoxHandle> {
                Ok(if via_from { Box::new($S::<()>::from(*self)) } else { Box::new((*self).into_shared()) })
            }
            fn erase(self: Box<Self>) -> Result<BoxHandle, BoxHandle> {
                Err(self)
            }
            fn cast_dyn(self: Box<Self>) -> Result<BoxHandle, BoxHandle> {
                Err(self)
            }
            fn take(self: Box<Self>, _pool: Option<&mut (dyn PoolOps + 'static)>, _id: u32, _ver: u32) -> Result<Taken, BoxHandle> {
                Err(self)
            }
            fn release(self: Box<Self>, pool: Option<&mut (dyn PoolOps + 'static)>) {
                if let Some(pool) = pool {
                    // SAFETY: the model says the object is present in this pool.
                    unsafe { raw_rm!($k, erased, pool, (*self).into_shared()) }
                }
            }
        }

        impl HandleOps for $S<()> {
            fn form(&self) -> Form {
                Form::SharedErased
            }
            fn addr(&self) -> usize {
                self.ptr().as_ptr() as usize
            }
            fn view(&self, _how: u8, _id: u32, _ver: u32) -> Option<Seen> {
                None
            }
            fn write(&mut self, _how: u8, _id: u32, _ver: u32) -> Option<Seen> {
                None
            }
            fn try_clone(&self) -> Option<BoxHandle> {
                Some(Box::new(*self))
            }
            fn into_shared(self: Box<Self>, _via_from: bool) -> Result<BoxHandle, BoxHandle> {
                Err(self)
            }
            fn erase(self: Box<Self>) -> Result<BoxHandle, BoxHandle> {
                Err(self)
            }
            fn cast_dyn(self: Box<Self>) -> Result<BoxHandle, BoxHandle> {
                Err(self)
            }
            fn take(self: Box<Self>, _pool: Option<&mut (dyn PoolOps + 'static)>, _id: u32, _ver: u32) -> Result<Taken, BoxHandle> {
                Err(self)
            }
            fn release(self: Box<Self>, pool: Option<&mut (dyn PoolOps + 'static)>) {
                if let Some(pool) = pool {
                    // SAFETY: the model says the object is present in this pool.
                    unsafe { raw_rm!($k, erased, pool, *self) }
                }
            }
        }
    };
}

raw_family!(RawPooledMut, RawPooled, plain);
raw_family!(RawBlindPooledMut, RawBlindPooled, blind);

// ------------------------------------------------------------------------------------------
// Pools
// ------------------------------------------------------------------------------------------

fn inject() -> ! {
    std::panic::panic_any(Injected)
}

fn init_in_place<T: Pay>(u: &mut MaybeUninit<T>, id: u32) {
    // SAFETY: `u` is valid for writes of T.
    unsafe { T::init_at(u.as_mut_ptr(), id, 0) }
}

/// Drives an iterator: 0 forward, 1 backward, 2 alternating starting at the front, 3 alternating
/// starting at the back, 4 = two from the front then all from the back.
fn drive<I, X>(mut it: I, dir: u8) -> Iterated
where
    I: DoubleEndedIterator<Item = NonNull<X>> + ExactSizeIterator,
{
    let exact_len = it.len();
    let mut len_consistent = it.size_hint() == (exact_len, Some(exact_len));
    let mut addrs = Vec::with_capacity(exact_len);
    let mut k = 0_usize;
    loop {
        let from_back = match dir % 5 {
            0 => false,
            1 => true,
            2 => k % 2 == 1,
            3 => k % 2 == 0,
            _ => k >= 2,
        };
        let x = if from_back { it.next_back() } else { it.next() };
        k += 1;
        match x {
            Some(p) => {
                addrs.push(p.as_ptr() as usize);
                if addrs.len() > exact_len.saturating_add(4) {
                    // Runaway iterator: stop; the caller reports the mismatch.
                    len_consistent = false;
                    break;
                }
                let want = exact_len.wrapping_sub(addrs.len());
                if it.len() != want || it.size_hint() != (want, Some(want)) {
                    len_consistent = false;
                }
            }
            None => break,
        }
    }
    if it.next().is_some() || it.next_back().is_some() {
        len_consistent = false;
    }
    Iterated {
        exact_len,
        addrs,
        len_consistent,
    }
}

fn policy(must_not_drop: bool) -> DropPolicy {
    if must_not_drop { DropPolicy::MustNotDropContents } else { DropPolicy::MayDropContents }
}

// Insert helpers: one generic function per pool type, selected by `dispatch!`.

macro_rules! ins_opaque_fn {
    ($name:ident, $pool:ty) => {
        #[allow(clippy::needless_pass_by_ref_mut)]
        fn $name<T: Pay>(p: &mut $pool, id: u32, how: InsHow) -> BoxHandle {
            // SAFETY (all unsafe calls): the closures fully initialise the object (or unwind
            // before touching it); the unchecked variants are only used when the generator picked
            // a type whose layout equals the pool's.
            match how {
                InsHow::Plain => Box::new(p.insert(T::make(id, 0))),
                InsHow::Unchecked => Box::new(unsafe { p.insert_unchecked(T::make(id, 0)) }),
                InsHow::With => Box::new(unsafe { p.insert_with(|u: &mut MaybeUninit<T>| init_in_place(u, id)) }),
                InsHow::WithUnchecked => {
                    Box::new(unsafe { p.insert_with_unchecked(|u: &mut MaybeUninit<T>| init_in_place(u, id)) })
                }
                InsHow::WithPanic => Box::new(unsafe { p.insert_with(|_u: &mut MaybeUninit<T>| inject()) }),
            }
        }
    };
}

macro_rules! ins_two_fn {
    ($name:ident, $pool:ty $(, $g:ident)?) => {
        #[allow(clippy::needless_pass_by_ref_mut)]
        fn $name<T: Pay>(p: &mut $pool, id: u32, how: InsHow) -> BoxHandle {
            // SAFETY: the closures fully initialise the object (or unwind before touching it).
            match how {
                InsHow::Plain | InsHow::Unchecked => Box::new(p.insert(T::make(id, 0))),
                InsHow::With | InsHow::WithUnchecked => {
                    Box::new(unsafe { p.insert_with(|u: &mut MaybeUninit<T>| init_in_place(u, id)) })
                }
                InsHow::WithPanic => Box::new(unsafe { p.insert_with(|_u: &mut MaybeUninit<T>| inject()) }),
            }
        }
    };
}

ins_opaque_fn!(ins_raw_opaque, RawOpaquePool);
ins_opaque_fn!(ins_local_opaque, LocalOpaquePool);
ins_opaque_fn!(ins_opaque, OpaquePool);
ins_two_fn!(ins_raw_pinned, RawPinnedPool<T>);
ins_two_fn!(ins_local_pinned, LocalPinnedPool<T>);
ins_two_fn!(ins_pinned, PinnedPool<T>);
ins_two_fn!(ins_raw_blind, RawBlindPool);
ins_two_fn!(ins_local_blind, LocalBlindPool);
ins_two_fn!(ins_blind, BlindPool);

// ---- opaque pools (one Layout, any type with that layout) ----

pub struct RawOpaqueP(RawOpaquePool);
pub struct LocalOpaqueP(LocalOpaquePool);
pub struct OpaqueP(OpaquePool);

impl PoolOps for RawOpaqueP {
    fn ins(&mut self, lay: u8, id: u32, how: InsHow) -> BoxHandle {
        let p = &mut self.0;
        dispatch!(lay, ins_raw_opaque, p, id, how)
    }
    fn plen(&self) -> usize {
        self.0.len()
    }
    fn pempty(&self) -> bool {
        self.0.is_empty()
    }
    fn cap(&self, _lay: u8) -> usize {
        self.0.capacity()
    }
    fn res(&mut self, _lay: u8, n: usize) {
        self.0.reserve(n);
    }
    fn shr(&mut self) {
        self.0.shrink_to_fit();
    }
    fn iterate(&self, dir: u8) -> Option<Iterated> {
        Some(if dir % 2 == 0 { drive(self.0.iter(), dir) } else { drive((&self.0).into_iter(), dir) })
    }
    fn clone_pool(&self) -> Option<BoxPool> {
        None
    }
    fn vprobe(&self) -> Option<PoolProbe> {
        Some(self.0.verif_probe())
    }
    fn raw(&mut self) -> Option<&mut dyn RawRemove> {
        Some(&mut self.0)
    }
    fn plain_touch(&mut self, lay: u8) -> bool {
        let p = &mut self.0;
        dispatch!(lay, touch_raw_opaque, p);
        true
    }
}

macro_rules! rc_opaque_pool {
    ($W:ident, $ins:ident) => {
        impl PoolOps for $W {
            fn ins(&mut self, lay: u8, id: u32, how: InsHow) -> BoxHandle {
                let p = &mut self.0;
                dispatch!(lay, $ins, p, id, how)
            }
            fn plen(&self) -> usize {
                self.0.len()
            }
            fn pempty(&self) -> bool {
                self.0.is_empty()
            }
            fn cap(&self, _lay: u8) -> usize {
                self.0.capacity()
            }
            fn res(&mut self, _lay: u8, n: usize) {
                self.0.reserve(n);
            }
            fn shr(&mut self) {
                self.0.shrink_to_fit();
            }
            fn iterate(&self, dir: u8) -> Option<Iterated> {
                Some(self.0.with_iter(|it| drive(it, dir)))
            }
            fn clone_pool(&self) -> Option<BoxPool> {
                Some(Box::new($W(self.0.clone())))
            }
            fn vprobe(&self) -> Option<PoolProbe> {
                Some(self.0.verif_probe())
            }
        }
    };
}

rc_opaque_pool!(LocalOpaqueP, ins_local_opaque);
rc_opaque_pool!(OpaqueP, ins_opaque);

// ---- pinned pools (one type) ----

impl<T: Pay> PoolOps for RawPinnedPool<T> {
    fn ins(&mut self, _lay: u8, id: u32, how: InsHow) -> BoxHandle {
        ins_raw_pinned::<T>(self, id, how)
    }
    fn plen(&self) -> usize {
        RawPinnedPool::len(self)
    }
    fn pempty(&self) -> bool {
        RawPinnedPool::is_empty(self)
    }
    fn cap(&self, _lay: u8) -> usize {
        RawPinnedPool::capacity(self)
    }
    fn res(&mut self, _lay: u8, n: usize) {
        RawPinnedPool::reserve(self, n);
    }
    fn shr(&mut self) {
        self.shrink_to_fit();
    }
    fn iterate(&self, dir: u8) -> Option<Iterated> {
        Some(if dir % 2 == 0 { drive(self.iter(), dir) } else { drive(self.into_iter(), dir) })
    }
    fn clone_pool(&self) -> Option<BoxPool> {
        None
    }
    fn vprobe(&self) -> Option<PoolProbe> {
        Some(self.verif_probe())
    }
    fn raw(&mut self) -> Option<&mut dyn RawRemove> {
        Some(self)
    }
}

macro_rules! rc_pinned_pool {
    ($P:ident, $ins:ident) => {
        impl<T: Pay> PoolOps for $P<T> {
            fn ins(&mut self, _lay: u8, id: u32, how: InsHow) -> BoxHandle {
                $ins::<T>(self, id, how)
            }
            fn plen(&self) -> usize {
                $P::len(self)
            }
            fn pempty(&self) -> bool {
                $P::is_empty(self)
            }
            fn cap(&self, _lay: u8) -> usize {
                $P::capacity(self)
            }
            fn res(&mut self, _lay: u8, n: usize) {
                $P::reserve(self, n);
            }
            fn shr(&mut self) {
                self.shrink_to_fit();
            }
            fn iterate(&self, dir: u8) -> Option<Iterated> {
                Some(self.with_iter(|it| drive(it, dir)))
            }
            fn clone_pool(&self) -> Option<BoxPool> {
                Some(Box::new(self.clone()))
            }
            fn vprobe(&self) -> Option<PoolProbe> {
                Some(self.verif_probe())
            }
        }
    };
}

rc_pinned_pool!(LocalPinnedPool, ins_local_pinned);
rc_pinned_pool!(PinnedPool, ins_pinned);

// ---- blind pools (any type; one inner pool per Layout; no iteration, no probe) ----

fn cap_raw_blind<T: Pay>(p: &RawBlindPool) -> usize {
    p.capacity_for::<T>()
}
fn cap_local_blind<T: Pay>(p: &LocalBlindPool) -> usize {
    p.capacity_for::<T>()
}
fn cap_blind<T: Pay>(p: &BlindPool) -> usize {
    p.capacity_for::<T>()
}
fn res_raw_blind<T: Pay>(p: &mut RawBlindPool, n: usize) {
    p.reserve_for::<T>(n);
}
#[allow(clippy::needless_pass_by_ref_mut)]
fn res_local_blind<T: Pay>(p: &mut LocalBlindPool, n: usize) {
    p.reserve_for::<T>(n);
}
#[allow(clippy::needless_pass_by_ref_mut)]
fn res_blind<T: Pay>(p: &mut BlindPool, n: usize) {
    p.reserve_for::<T>(n);
}

macro_rules! blind_pool {
    ($P:ty, $ins:ident, $cap:ident, $res:ident, $clone:expr, $rawblind:expr) => {
        impl PoolOps for $P {
            fn ins(&mut self, lay: u8, id: u32, how: InsHow) -> BoxHandle {
                dispatch!(lay, $ins, self, id, how)
            }
            fn plen(&self) -> usize {
                <$P>::len(self)
            }
            fn pempty(&self) -> bool {
                <$P>::is_empty(self)
            }
            fn cap(&self, lay: u8) -> usize {
                dispatch!(lay, $cap, self)
            }
            fn res(&mut self, lay: u8, n: usize) {
                dispatch!(lay, $res, self, n)
            }
            fn shr(&mut self) {
                self.shrink_to_fit();
            }
            fn iterate(&self, _dir: u8) -> Option<Iterated> {
                None
            }
            fn clone_pool(&self) -> Option<BoxPool> {
                let f: fn(&$P) -> Option<BoxPool> = $clone;
                f(self)
            }
            fn vprobe(&self) -> Option<PoolProbe> {
                None
            }
            fn raw_blind(&mut self) -> Option<&mut RawBlindPool> {
                let f: fn(&mut $P) -> Option<&mut RawBlindPool> = $rawblind;
                f(self)
            }
            fn plain_touch(&mut self, lay: u8) -> bool {
                match self.raw_blind() {
                    Some(p) => {
                        dispatch!(lay, touch_raw_blind, p);
                        true
                    }
                    None => false,
                }
            }
        }
    };
}

blind_pool!(RawBlindPool, ins_raw_blind, cap_raw_blind, res_raw_blind, |_p| None, |p| Some(p));
blind_pool!(LocalBlindPool, ins_local_blind, cap_local_blind, res_local_blind, |p| Some(Box::new(p.clone())), |_p| None);
blind_pool!(BlindPool, ins_blind, cap_blind, res_blind, |p| Some(Box::new(p.clone())), |_p| None);

// ---- construction ----

fn new_raw_opaque<T: Pay>(mnd: bool) -> BoxPool {
    Box::new(RawOpaqueP(RawOpaquePool::builder().layout_of::<T>().drop_policy(policy(mnd)).build()))
}
fn new_local_opaque<T: Pay>() -> BoxPool {
    Box::new(LocalOpaqueP(LocalOpaquePool::with_layout_of::<T>()))
}
fn new_opaque<T: Pay>() -> BoxPool {
    Box::new(OpaqueP(OpaquePool::with_layout_of::<T>()))
}
fn new_raw_pinned<T: Pay>(mnd: bool) -> BoxPool {
    Box::new(RawPinnedPool::<T>::builder().drop_policy(policy(mnd)).build())
}
fn new_local_pinned<T: Pay>() -> BoxPool {
    Box::new(LocalPinnedPool::<T>::new())
}
fn new_pinned<T: Pay>() -> BoxPool {
    Box::new(PinnedPool::<T>::new())
}

/// Creates the first pool value of a run. The slab-capacity override must already be set.
pub fn new_pool(access: Access, shape: Shape, lay: u8, must_not_drop: bool, via_layout: bool) -> BoxPool {
    match (access, shape) {
        (Access::Raw, Shape::Opaque) => {
            if via_layout {
                let li = lay_info(lay);
                let layout = std::alloc::Layout::from_size_align(li.size, li.align).expect("layout");
                Box::new(RawOpaqueP(RawOpaquePool::builder().layout(layout).drop_policy(policy(must_not_drop)).build()))
            } else {
                dispatch!(lay, new_raw_opaque, must_not_drop)
            }
        }
        (Access::Local, Shape::Opaque) => {
            if via_layout {
                let li = lay_info(lay);
                let layout = std::alloc::Layout::from_size_align(li.size, li.align).expect("layout");
                Box::new(LocalOpaqueP(LocalOpaquePool::with_layout(layout)))
            } else {
                dispatch!(lay, new_local_opaque)
            }
        }
        (Access::Managed, Shape::Opaque) => {
            if via_layout {
                let li = lay_info(lay);
                let layout = std::alloc::Layout::from_size_align(li.size, li.align).expect("layout");
                Box::new(OpaqueP(OpaquePool::with_layout(layout)))
            } else {
                dispatch!(lay, new_opaque)
            }
        }
        (Access::Raw, Shape::Pinned) => dispatch!(lay, new_raw_pinned, must_not_drop),
        (Access::Local, Shape::Pinned) => dispatch!(lay, new_local_pinned),
        (Access::Managed, Shape::Pinned) => dispatch!(lay, new_pinned),
        (Access::Raw, Shape::Blind) => Box::new(RawBlindPool::builder().drop_policy(policy(must_not_drop)).build()),
        (Access::Local, Shape::Blind) => Box::new(LocalBlindPool::new()),
        (Access::Managed, Shape::Blind) => Box::new(BlindPool::new()),
    }
}

/// Slab capacity override (hook H1). Zero restores the library's own choice.
pub fn set_slab_capacity(cap: usize) {
    infinity_pool::verif::set_slab_capacity_override(cap);
}
