//! The caller thread: builds the fake machine and the pool, and executes one round per command in
//! a stack frame of its own that holds the state the callbacks borrow and the configured run.

use std::num::NonZero;
use std::panic::{AssertUnwindSafe, catch_unwind};

use many_cpus::SystemHardware;
use many_cpus::fake::HardwareBuilder;
use par_bench::{ConfiguredRun, Run, RunMeta, ThreadPool};

use crate::sim::{Borrowed, Cmd, Flag, OutData, Outcome, Sim, TsInfo};
use crate::{ParScenario, Phase, RoundSpec};

fn nz(v: usize) -> NonZero<usize> {
    NonZero::new(v.max(1)).expect("max(1)")
}

// ----------------------------------------------------------------------------------------------
// State objects handed to the library. Each borrows the caller's frame and touches it when the
// library drops it, like a guard or a reference into the benchmark's fixture would.
// ----------------------------------------------------------------------------------------------

pub struct TState<'a> {
    b: &'a Borrowed,
    sim: &'static Sim,
    info: TsInfo,
}

impl Drop for TState<'_> {
    fn drop(&mut self) {
        let _ = self.sim.seam(self.b, Phase::ThreadDrop, None, None, |_, _, _| None);
    }
}

pub struct IState<'a> {
    b: &'a Borrowed,
    sim: &'static Sim,
    slot: usize,
    round: usize,
    k: u64,
    consumed: Flag,
}

impl Drop for IState<'_> {
    fn drop(&mut self) {
        if !self.consumed.get() {
            self.sim.unused_drop(self.b, "iter_state");
        }
    }
}

pub struct WState<'a> {
    b: &'a Borrowed,
    sim: &'static Sim,
    slot: usize,
    round: usize,
    nonce: u64,
    ended: Flag,
}

impl Drop for WState<'_> {
    fn drop(&mut self) {
        if !self.ended.get() {
            self.sim.unused_drop(self.b, "wrapper_state");
        }
    }
}

pub struct CState<'a> {
    b: &'a Borrowed,
    sim: &'static Sim,
}

impl Drop for CState<'_> {
    fn drop(&mut self) {
        let _ = self.sim.seam(self.b, Phase::Cleanup, None, None, |_, _, _| None);
    }
}

/// Measure output: `'static` as the library requires.
pub struct Out(OutData);

pub trait OutInfo {
    fn info(&self) -> Option<OutData>;
}
impl OutInfo for Out {
    fn info(&self) -> Option<OutData> {
        Some(self.0.clone())
    }
}
impl OutInfo for () {
    fn info(&self) -> Option<OutData> {
        None
    }
}

/// Thread state as a callback sees it: the harness object, or `()` when the shape has no
/// `prepare_thread` stage.
pub trait MaybeTs {
    fn ts(&self) -> Option<TsInfo>;
}
impl MaybeTs for TState<'_> {
    fn ts(&self) -> Option<TsInfo> {
        Some(self.info)
    }
}
impl MaybeTs for () {
    fn ts(&self) -> Option<TsInfo> {
        None
    }
}

#[derive(Clone, Copy, Debug)]
pub struct IsInfo {
    slot: usize,
    round: usize,
    k: u64,
}

pub trait MaybeIs {
    fn consume(&self) -> Option<IsInfo>;
}
impl MaybeIs for IState<'_> {
    fn consume(&self) -> Option<IsInfo> {
        self.consumed.set(true);
        Some(IsInfo { slot: self.slot, round: self.round, k: self.k })
    }
}
impl MaybeIs for () {
    fn consume(&self) -> Option<IsInfo> {
        None
    }
}

// ----------------------------------------------------------------------------------------------
// Callback bodies
// ----------------------------------------------------------------------------------------------

fn cb_prepare_thread<'a>(sim: &'static Sim, b: &'a Borrowed, meta: &RunMeta) -> TState<'a> {
    let t = sim.seam(b, Phase::PrepThread, Some(meta), None, |_, _, _| None);
    TState { b, sim, info: TsInfo { slot: t.slot, round: t.round, nonce: t.nonce } }
}

fn cb_prepare_iter<'a>(sim: &'static Sim, b: &'a Borrowed, meta: &RunMeta, ts: Option<TsInfo>) -> IState<'a> {
    let t = sim.seam(b, Phase::PrepIter, Some(meta), Some(ts), |_, _, _| None);
    IState { b, sim, slot: t.slot, round: t.round, k: t.iter, consumed: Flag::new(false) }
}

fn cb_begin<'a>(sim: &'static Sim, b: &'a Borrowed, meta: &RunMeta, ts: Option<TsInfo>) -> WState<'a> {
    let t = sim.seam(b, Phase::Begin, Some(meta), Some(ts), |_, _, _| None);
    WState { b, sim, slot: t.slot, round: t.round, nonce: t.nonce, ended: Flag::new(false) }
}

fn cb_end(sim: &'static Sim, b: &Borrowed, w: WState<'_>) -> Out {
    let (ws, wr, wn) = (w.slot, w.round, w.nonce);
    let t = sim.seam(b, Phase::End, None, None, |r, slot, _| {
        w.ended.set(true);
        let th = &mut r.th[slot];
        th.ws_ended += 1;
        if ws != slot || wr != r.idx || wn != th.ws_nonce {
            return Some((
                "state-mixup",
                format!("round {}: slot {slot} measure_end was handed wrapper state of slot {ws} round {wr}", r.idx),
            ));
        }
        None
    });
    Out(OutData { slot: t.slot, round: t.round, nonce: wn })
}

/// The iteration body: the seam first (gate, possibly panic), then the iteration state is taken
/// (even iterations) or inspected by reference (odd iterations).
fn cb_iter<'a>(
    sim: &'static Sim,
    b: &'a Borrowed,
    meta: &RunMeta,
    ts: Option<TsInfo>,
    take: impl FnOnce(bool) -> Option<IsInfo>,
    has_pi: bool,
) -> CState<'a> {
    let _ = sim.seam(b, Phase::Iter, Some(meta), Some(ts), |r, slot, k| {
        let got = take(k % 2 == 0);
        let th = &mut r.th[slot];
        th.cs_created += 1;
        match (has_pi, got) {
            (true, Some(i)) => {
                th.is_consumed += 1;
                if i.slot != slot || i.round != r.idx || i.k != k {
                    return Some((
                        "state-mixup",
                        format!(
                            "round {}: slot {slot} iteration {k} was handed iteration state {} of slot {} round {}",
                            r.idx, i.k, i.slot, i.round
                        ),
                    ));
                }
                None
            }
            (false, None) => None,
            _ => Some(("state-mixup", format!("round {}: slot {slot} iteration {k}: iteration state {got:?}", r.idx))),
        }
    });
    CState { b, sim }
}

// ----------------------------------------------------------------------------------------------
// One round = one stack frame
// ----------------------------------------------------------------------------------------------

/// Runs the configured run and reports the outcome at the instant `execute_on` is over.
fn execute<TS, IS, WS, MO, CS>(
    sim: &'static Sim,
    b: &Borrowed,
    run: ConfiguredRun<'_, TS, IS, WS, MO, CS>,
    pool: &mut ThreadPool,
    iterations: u64,
) where
    MO: OutInfo + Send + 'static,
{
    let res = catch_unwind(AssertUnwindSafe(|| run.execute_on(pool, iterations)));
    let outcome = match res {
        Ok(mut summary) => {
            let outs = summary.take_measure_outputs();
            Outcome::Returned(outs.iter().map(OutInfo::info).collect())
        }
        Err(p) => Outcome::Unwound(simkit::panic_message(&p)),
    };
    sim.post_outcome(b, outcome);
    if cfg!(miri) {
        // Under Miri the frame is popped right away, as a real caller's would be: the run (boxed
        // closures) is dropped here and the borrowed state dies when `do_round` returns. With a
        // worker still inside a callback, Miri's default aliasing model already objects to these
        // two deallocations (a protected reference argument of the worker's frame points into
        // them); with `-Zmiri-disable-stacked-borrows` the report is the worker's own late access
        // to the popped frame — a plain dangling access.
        drop(run);
    } else {
        // Natively the frame (borrowed state + the run's boxed closures) stays alive while the
        // scheduler drains the parked workers, so that a late access is observed through the flag
        // instead of being undefined behaviour of the harness process.
        sim.wait_frame_release();
        drop(run);
    }
}

#[inline(never)]
fn do_round(sim: &'static Sim, pool: &mut ThreadPool, spec: &RoundSpec) {
    let borrowed = Borrowed::new();
    let b = &borrowed;
    let g = nz(spec.groups);
    let iters = spec.iterations;
    let has_pi = spec.pi;
    // `.groups()` exists on every builder stage; call it exactly once, at the stage the scenario
    // picks among the stages this shape has.
    let mut stages: Vec<u8> = vec![0];
    if spec.pt {
        stages.push(1);
    }
    if spec.pi {
        stages.push(2);
    }
    if spec.mw {
        stages.push(3);
    }
    let at = stages[usize::from(spec.groups_at) % stages.len()];

    macro_rules! grp {
        ($e:expr, $stage:expr) => {{
            let x = $e;
            if at == $stage { x.groups(g) } else { x }
        }};
    }
    macro_rules! f_pt {
        () => {
            move |a| cb_prepare_thread(sim, b, a.meta())
        };
    }
    macro_rules! f_pi {
        () => {
            move |a| cb_prepare_iter(sim, b, a.meta(), a.thread_state().ts())
        };
    }
    macro_rules! f_begin {
        () => {
            move |a| cb_begin(sim, b, a.meta(), a.thread_state().ts())
        };
    }
    macro_rules! f_end {
        () => {
            move |w| cb_end(sim, b, w)
        };
    }
    macro_rules! f_iter {
        () => {
            move |mut a| {
                let meta = *a.meta();
                let ts = a.thread_state().ts();
                cb_iter(
                    sim,
                    b,
                    &meta,
                    ts,
                    |by_value| {
                        if by_value {
                            a.take_iter_state().consume()
                        } else {
                            a.iter_state().consume()
                        }
                    },
                    has_pi,
                )
            }
        };
    }

    let r0 = grp!(Run::new(), 0);
    match (spec.pt, spec.pi, spec.mw) {
        (false, false, false) => {
            execute(sim, b, r0.iter(f_iter!()), pool, iters);
        }
        (true, false, false) => {
            let r1 = grp!(r0.prepare_thread(f_pt!()), 1);
            execute(sim, b, r1.iter(f_iter!()), pool, iters);
        }
        (false, true, false) => {
            let r2 = grp!(r0.prepare_iter(f_pi!()), 2);
            execute(sim, b, r2.iter(f_iter!()), pool, iters);
        }
        (true, true, false) => {
            let r1 = grp!(r0.prepare_thread(f_pt!()), 1);
            let r2 = grp!(r1.prepare_iter(f_pi!()), 2);
            execute(sim, b, r2.iter(f_iter!()), pool, iters);
        }
        (false, false, true) => {
            let r3 = grp!(r0.measure_wrapper(f_begin!(), f_end!()), 3);
            execute(sim, b, r3.iter(f_iter!()), pool, iters);
        }
        (true, false, true) => {
            let r1 = grp!(r0.prepare_thread(f_pt!()), 1);
            let r3 = grp!(r1.measure_wrapper(f_begin!(), f_end!()), 3);
            execute(sim, b, r3.iter(f_iter!()), pool, iters);
        }
        (false, true, true) => {
            let r2 = grp!(r0.prepare_iter(f_pi!()), 2);
            let r3 = grp!(r2.measure_wrapper(f_begin!(), f_end!()), 3);
            execute(sim, b, r3.iter(f_iter!()), pool, iters);
        }
        (true, true, true) => {
            let r1 = grp!(r0.prepare_thread(f_pt!()), 1);
            let r2 = grp!(r1.prepare_iter(f_pi!()), 2);
            let r3 = grp!(r2.measure_wrapper(f_begin!(), f_end!()), 3);
            execute(sim, b, r3.iter(f_iter!()), pool, iters);
        }
    }
}

/// Body of the caller thread.
pub fn caller_main(sim: &'static Sim, sc: &ParScenario) {
    let hardware = SystemHardware::fake(HardwareBuilder::from_counts(nz(sc.hw.max(sc.n)), nz(sc.regions)));
    let all = hardware.all_processors();
    let set = if all.len() > sc.n {
        all.take(nz(sc.n)).expect("the machine has at least n processors")
    } else {
        all
    };
    let mut pool = ThreadPool::new(&set);
    sim.post_pool_ready(pool.thread_count().get());
    loop {
        match sim.next_cmd() {
            Cmd::Round(i) => {
                if let Some(spec) = sc.rounds.get(i) {
                    do_round(sim, &mut pool, spec);
                }
                // The frame that owned the borrowed state is gone.
                sim.post_frame_dead();
            }
            Cmd::Dispose => break,
            Cmd::Idle => {}
        }
    }
    // After a worker died the pool cannot be dropped without a second panic (the library's
    // "worker channel is open during orderly shutdown" expectation); contain it.
    let r = catch_unwind(AssertUnwindSafe(move || drop(pool)));
    sim.post_disposed(r.is_err());
}
