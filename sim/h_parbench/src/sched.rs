//! The scheduler: drives one scenario (one pool, several rounds) and evaluates the oracles.
//!
//! Naming of threads. The pool's workers are its own OS threads; which of them is handed which
//! group index, and which of them the pool awaits first, are start-up races the harness does not
//! own. What *is* fixed for the lifetime of a pool is the order in which `execute_task` awaits the
//! per-worker results, and that order is observable: the measure outputs come back in it. A
//! free-running round with a measure wrapper therefore teaches the harness the await position of
//! every worker, and gated rounds name the threads by it (`t0` is awaited first). The group a
//! thread was dealt is checked (consistent per thread, even division) but never hashed or logged
//! per thread, so runs are deterministic although the deal itself is a race.
//!
//! One-runner discipline in gated rounds. Every callback parks at its entry; the scheduler releases
//! one parked thread at a time and then waits until that thread is observable again: parked at its
//! next callback, dead (thread-local destructor), or — by the model, because the library has no
//! callback there — blocked in the start barrier or past its last callback.

use std::time::Duration;

use simkit::{Ctx, Rng, Violation, hash_str, mix};

use crate::exec::caller_main;
use crate::sim::{Action, Cmd, Outcome, RoundState, Sim, St};
use crate::{PHASES, ParScenario, Phase, RoundSpec, avoiding};

/// A worker that should reach its next observable point and does not.
fn long_wait() -> Duration {
    Duration::from_secs(20)
}

/// No thread can move and the model says `execute_on` cannot return: how long to watch before
/// calling it a hang (wall clock natively; virtual and skipped instantly under Miri).
fn hang_wait() -> Duration {
    Duration::from_secs(3)
}

/// The model says `execute_on` is about to be over although other threads could still move (only
/// in the `known-*` modes, and in ordinary modes when the model is wrong): how long to watch for
/// it before moving on. Missing it costs completeness of that run, never soundness.
fn due_wait() -> Duration {
    Duration::from_secs(5)
}

/// How long a worker may take to exit after its callback panicked.
fn dying_grace() -> Duration {
    Duration::from_secs(20)
}

fn abort_wait() -> Duration {
    Duration::from_secs(5)
}

struct Sched<'a> {
    sim: &'static Sim,
    sc: &'a ParScenario,
    ctx: &'a mut Ctx,
    rng: Rng,
    n: usize,
    /// Await position → harness slot, learned from a round with a measure wrapper.
    slot_of_tid: Vec<usize>,
    mapping_known: bool,
    nontrivial: bool,
    /// Something happened after which threads may still hold references into this scenario.
    abnormal: bool,
    pool_dead: bool,
    hung: bool,
}

fn ev(ctx: &mut Ctx, parts: &[u64], text: impl FnOnce() -> String) {
    let mut h = 0x51_u64;
    for p in parts {
        h = mix(h, *p);
    }
    ctx.event(h, text);
}

fn model_release(r: &mut RoundState, slot: usize, action: Action) {
    model_release_inner(r, slot, action);
    for t in &mut r.th {
        if t.st == St::Done {
            t.done = true;
        }
    }
}

/// The library behaviour the model assumes follows `AVOID_KNOWN`: while a defect is listed the
/// model describes the defective behaviour (needed to steer around it deterministically); once the
/// key is removed the model describes the repaired one, and the defective behaviour, should it
/// still be there, shows up as a violation (early unwind: `use-after-unwind`; barrier that cannot
/// fill: `execute-hang`).
///
/// Defective: a worker whose preparation callback panics dies at once and never reaches the start
/// barrier. Repaired: it still arrives at the barrier (so the other threads are released) and dies
/// afterwards.
fn prep_panic_reaches_barrier() -> bool {
    !avoiding("c17-prep-panic-hang")
}

/// Defective: `execute_on` unwinds as soon as the first worker in await order that has not
/// delivered a result is dead. Repaired: only when every worker has ended.
fn unwinds_on_first_failure() -> bool {
    avoiding("c17-use-after-unwind")
}

fn open_barrier(r: &mut RoundState) {
    let after_barrier = if r.seq.len() > r.barrier_at { St::Running } else { St::Done };
    for t in &mut r.th {
        if t.st == St::AtBarrier {
            if t.zombie {
                // Carries its preparation panic across the barrier and dies now.
                t.st = St::Running;
                t.dying = true;
            } else {
                t.st = after_barrier;
            }
        }
    }
}

fn model_release_inner(r: &mut RoundState, slot: usize, action: Action) {
    let seq_len = r.seq.len();
    let barrier_at = r.barrier_at;
    let n = r.n;
    {
        let th = &mut r.th[slot];
        th.go = true;
        th.exiting = true;
        th.action = action;
        th.observed = false;
        if action == Action::Panic {
            if th.pos < barrier_at && prep_panic_reaches_barrier() {
                th.zombie = true;
                th.st = St::AtBarrier;
                r.arrived += 1;
                if r.arrived == n {
                    open_barrier(r);
                }
                return;
            }
            // Expected next: the thread's exit.
            th.st = St::Running;
            th.dying = true;
            return;
        }
        th.pos += 1;
    }
    let next = r.th[slot].pos;
    if barrier_at > 0 && next == barrier_at {
        r.arrived += 1;
        r.th[slot].st = St::AtBarrier;
        if r.arrived == n {
            open_barrier(r);
        }
    } else if next >= seq_len {
        r.th[slot].st = St::Done;
    } else {
        r.th[slot].st = St::Running;
    }
}

impl Sched<'_> {
    /// Which thread the pool is (by the model) waiting for, and whether that wait is over.
    fn main_due(&self, r: &RoundState) -> (bool, Option<usize>) {
        if !unwinds_on_first_failure() {
            let pending = (0..self.n).find(|t| {
                let th = &r.th[self.slot_of_tid[*t]];
                !(th.done || th.st == St::Done || th.st == St::Dead)
            });
            return (pending.is_none(), pending);
        }
        for tid in 0..self.n {
            let th = &r.th[self.slot_of_tid[tid]];
            match th.st {
                _ if th.done => {}
                St::Done => {}
                St::Dead => return (true, Some(tid)),
                _ => return (false, Some(tid)),
            }
        }
        (true, None)
    }

    fn tid_of_slot(&self, slot: usize) -> usize {
        self.slot_of_tid.iter().position(|s| *s == slot).unwrap_or(slot)
    }

    fn round(&mut self, idx: usize, spec: &RoundSpec) -> Result<(), Violation> {
        let sim = self.sim;
        let n = self.n;
        let reject = n % spec.groups != 0;
        let gated = spec.gated && self.mapping_known && !reject;
        if spec.gated && !self.mapping_known {
            self.ctx.probe("gated-round-without-await-order (run free)");
        }
        let (seq, barrier_at) = spec.seam_seq();
        {
            let mut g = sim.lock();
            let mut r = Sim::new_round(n, idx, spec, gated);
            if gated {
                let st0 = if seq.is_empty() { St::Done } else { St::Running };
                for t in &mut r.th {
                    t.st = st0;
                }
                if barrier_at == 0 {
                    r.arrived = n;
                }
            }
            // Workers that died in an earlier round stay dead.
            for (slot, dead) in g.dead.clone().into_iter().enumerate() {
                if dead {
                    r.th[slot].st = St::Dead;
                }
            }
            g.round = Some(r);
            g.outcome = None;
            g.live_at_return.clear();
            g.frame_release = false;
            g.frame_dead = false;
            g.cmd = Cmd::Round(idx);
        }
        sim.cv_caller.notify_all();
        ev(
            self.ctx,
            &[
                1,
                idx as u64,
                n as u64,
                spec.groups as u64,
                spec.iterations,
                u64::from(spec.pt) | u64::from(spec.pi) << 1 | u64::from(spec.mw) << 2,
                u64::from(spec.groups_at),
                u64::from(gated),
            ],
            || {
                format!(
                    "round {idx}: {n} threads, groups {} (set at stage {}), iterations {}, stages pt={} pi={} mw={}, {}",
                    spec.groups,
                    spec.groups_at,
                    spec.iterations,
                    spec.pt,
                    spec.pi,
                    spec.mw,
                    if gated { "gated" } else { "free-running" }
                )
            },
        );
        self.ctx.probe(if gated { "gated-round" } else { "free-round" });
        if idx > 0 {
            self.ctx.probe("pool-reused-for-another-round");
        }

        if gated {
            self.drive(idx, spec)?;
        } else {
            let g = sim.lock();
            let (g, got) = sim.wait_until(g, long_wait(), |st| st.outcome.is_some().then_some(()));
            drop(g);
            if got.is_none() && spec.aftermath {
                // Not promised by the property: a pool with a dead worker may also never return.
                self.hung = true;
                self.abnormal = true;
                self.ctx.probe("aftermath-execute_on-did-not-return");
                return Ok(());
            }
            if got.is_none() {
                self.hung = true;
                self.abnormal = true;
                return Err(Violation::new(
                    "execute-hang",
                    format!("round {idx}: execute_on did not return from a fault-free free-running round"),
                ));
            }
        }
        self.after_outcome(idx, spec, reject)
    }

    /// Gated round: release parked threads one at a time until `execute_on` is over.
    fn drive(&mut self, idx: usize, spec: &RoundSpec) -> Result<(), Violation> {
        let sim = self.sim;
        let n = self.n;
        let (seq, _) = spec.seam_seq();
        let find = |phase: Phase, iter: u64| seq.iter().position(|s| *s == (phase, iter));
        let mut panic_at: Vec<Option<usize>> = vec![None; n];
        for p in &spec.panics {
            if p.tid < n && panic_at[p.tid].is_none() {
                panic_at[p.tid] = find(p.phase, p.iter);
            }
        }
        let mut stall_at: Vec<Vec<usize>> = vec![Vec::new(); n];
        for s in &spec.stalls {
            if s.tid < n {
                if let Some(i) = find(s.phase, s.iter) {
                    stall_at[s.tid].push(i);
                }
            }
        }
        let mut last: Option<usize> = None;
        let mut due_missed = false;
        let mut dead_logged = vec![false; n];
        {
            let g = sim.lock();
            for (slot, d) in g.dead.iter().enumerate() {
                if *d {
                    dead_logged[slot] = true;
                }
            }
        }

        loop {
            // 1. One-runner discipline: wait until the thread released last is observable again.
            let g = sim.lock();
            let (g, ok) = sim.wait_until(g, long_wait(), |st| {
                let r = st.round.as_ref().expect("round set");
                (st.violation.is_some() || !r.th.iter().any(|t| (t.st == St::Running && !t.dying) || t.exiting)).then_some(())
            });
            // A thread released into a panic ends with the exit of its worker thread (today's
            // pool does not catch panics). Should a future pool keep the worker alive, fall back
            // to a grace period instead of calling that a stall.
            let (mut g, died) = sim.wait_until(g, dying_grace(), |st| {
                let r = st.round.as_ref().expect("round set");
                (st.violation.is_some() || !r.th.iter().any(|t| t.dying && t.st != St::Dead)).then_some(())
            });
            if died.is_none() {
                let r = g.round.as_mut().expect("round set");
                for t in &mut r.th {
                    if t.dying && t.st != St::Dead {
                        t.dying = false;
                        t.st = St::Done;
                        self.ctx.probe("worker-survived-injected-panic");
                    }
                }
            }
            if g.violation.is_some() {
                drop(g);
                return self.abort_round(idx);
            }
            if ok.is_none() {
                let r = g.round.as_ref().expect("round set");
                let who: Vec<String> = (0..n)
                    .filter(|t| r.th[self.slot_of_tid[*t]].st == St::Running)
                    .map(|t| format!("t{t} (expected next: {:?})", r.seq.get(r.th[self.slot_of_tid[t]].pos)))
                    .collect();
                let zombie = r.th.iter().any(|t| t.zombie);
                Sim::violate(
                    &mut g,
                    "worker-stalled",
                    format!(
                        "round {idx}: {} did not reach the next observable point{}",
                        who.join(", "),
                        if zombie {
                            " — a thread panicked in preparation; with `c17-prep-panic-hang` not listed in AVOID_KNOWN the model expects it to reach the start barrier all the same, so that the others are released"
                        } else {
                            ""
                        }
                    ),
                );
                drop(g);
                return self.abort_round(idx);
            }

            // 2. Observe, in await order, what became visible.
            let mut mismatch: Option<String> = None;
            {
                let r = g.round.as_mut().expect("round set");
                let any_at_barrier = r.th.iter().any(|t| t.st == St::AtBarrier);
                for tid in 0..n {
                    let slot = self.slot_of_tid[tid];
                    let seqv = r.seq.clone();
                    let th = &mut r.th[slot];
                    if th.st == St::Parked && !th.observed {
                        th.observed = true;
                        let at = th.parked.unwrap_or((Phase::PrepThread, u64::MAX));
                        if seqv.get(th.pos) != Some(&at) && mismatch.is_none() {
                            mismatch = Some(format!(
                                "round {idx}: t{tid} parked at {}#{} but the run's callback sequence has {:?} at position {}",
                                at.0.name(),
                                at.1,
                                seqv.get(th.pos),
                                th.pos
                            ));
                        }
                        ev(self.ctx, &[2, tid as u64, at.0.ix() as u64, at.1], || format!("t{tid} parked in {}#{}", at.0.name(), at.1));
                        if at.0.pre_barrier() && any_at_barrier {
                            self.ctx.probe("straggler-in-preparation-while-others-wait-at-barrier");
                        }
                    }
                    if th.st == St::Dead && !dead_logged[slot] && th.done {
                        // A worker that had finished all its callbacks but not yet delivered its
                        // result when execute_task unwound: its `result_tx.send(..).expect(..)`
                        // fails and the worker dies too. Asynchronous, hence not part of the log.
                        dead_logged[slot] = true;
                        self.ctx.probe("finished-worker-died-delivering-result-after-unwind");
                    }
                    if th.st == St::Dead && !dead_logged[slot] {
                        dead_logged[slot] = true;
                        let drops = th.unwind_drops;
                        let balanced = th.balanced();
                        ev(self.ctx, &[3, tid as u64, drops], || format!("t{tid} worker thread exited ({drops} state objects dropped while unwinding)"));
                        if drops > 0 {
                            self.ctx.probe("state-dropped-while-unwinding");
                        }
                        if !balanced && mismatch.is_none() {
                            mismatch = Some(format!("round {idx}: t{tid} exited but not every state object it created was dropped: {th:?}"));
                        }
                        if !th.panicked && mismatch.is_none() {
                            mismatch = Some(format!("round {idx}: t{tid} worker thread exited without an injected panic"));
                        }
                    }
                }
            }
            if let Some(m) = mismatch {
                let class = if m.contains("parked at") {
                    "unexpected-callback"
                } else if m.contains("without an injected") {
                    "worker-died"
                } else {
                    "state-leak"
                };
                Sim::violate(&mut g, class, m);
                drop(g);
                return self.abort_round(idx);
            }

            // 3. Is execute_on over?
            if g.outcome.is_some() {
                return Ok(());
            }

            // 4. Should it be?
            let (due, waiting_for, movable) = {
                let r = g.round.as_ref().expect("round set");
                let (due, w) = self.main_due(r);
                let movable: Vec<usize> = (0..n).filter(|t| r.th[self.slot_of_tid[*t]].st == St::Parked).collect();
                (due, w, movable)
            };
            if due || movable.is_empty() {
                let timeout = if movable.is_empty() {
                    if due { long_wait() } else { hang_wait() }
                } else if due_missed {
                    Duration::ZERO
                } else {
                    due_wait()
                };
                let (g2, got) = sim.wait_until(g, timeout, |st| {
                    let r = st.round.as_ref().expect("round set");
                    (st.outcome.is_some() || st.violation.is_some() || r.th.iter().any(|t| t.st == St::Parked && !t.observed)).then_some(())
                });
                g = g2;
                if g.outcome.is_some() {
                    return Ok(());
                }
                if got.is_some() && movable.is_empty() {
                    // A worker the model had written off turned up at a callback: look again.
                    continue;
                }
                if movable.is_empty() {
                    let r = g.round.as_ref().expect("round set");
                    let states: Vec<String> = (0..n).map(|t| format!("t{t}:{:?}", r.th[self.slot_of_tid[t]].st)).collect();
                    let detail = format!(
                        "round {idx}: execute_on neither returned nor unwound and no worker can move: the pool awaits {} first; workers: {}{}",
                        waiting_for.map_or("nobody".to_owned(), |t| format!("t{t}")),
                        states.join(" "),
                        if due { "" } else { " — a worker died during preparation, so the start barrier can never fill and the awaited worker is blocked in it for good" }
                    );
                    drop(g);
                    self.hung = true;
                    self.abnormal = true;
                    return Err(Violation::new("execute-hang", detail));
                }
                if !due_missed {
                    due_missed = true;
                    self.ctx.probe("execute_on-over-later-than-await-order-model");
                }
            }

            // 5. Pick a parked thread and release it.
            let (tid, action, at) = {
                let r = g.round.as_mut().expect("round set");
                let held = |t: usize, r: &RoundState| stall_at[t].contains(&r.th[self.slot_of_tid[t]].pos);
                let free: Vec<usize> = movable.iter().copied().filter(|t| !held(*t, r)).collect();
                if !free.is_empty() {
                    let held_now: Vec<usize> = movable.iter().copied().filter(|t| held(*t, r)).collect();
                    for t in held_now {
                        let th = &mut r.th[self.slot_of_tid[t]];
                        if !th.stall_counted {
                            th.stall_counted = true;
                            let ph = th.parked.map_or("?", |p| p.0.name());
                            self.ctx.fault(&format!("stall@{ph}"));
                        }
                    }
                }
                let cands = if free.is_empty() { movable.clone() } else { free };
                let tid = match last {
                    Some(l) if cands.contains(&l) && self.rng.chance(u64::from(spec.sticky.min(100)), 100) => l,
                    _ => *self.rng.pick(&cands),
                };
                let slot = self.slot_of_tid[tid];
                let pos = r.th[slot].pos;
                let action = if panic_at[tid] == Some(pos) { Action::Panic } else { Action::Proceed };
                let at = r.th[slot].parked.unwrap_or((Phase::PrepThread, 0));
                if action == Action::Panic {
                    self.ctx.fault(&format!("panic@{}", at.0.name()));
                    let others_live = (0..n).filter(|t| *t != tid && r.th[self.slot_of_tid[*t]].in_cb > 0).count();
                    let others_barrier = r.th.iter().filter(|t| t.st == St::AtBarrier).count();
                    if others_live > 0 {
                        self.ctx.probe("panic-while-others-inside-callbacks");
                    }
                    if others_barrier > 0 {
                        self.ctx.probe("panic-while-others-at-barrier");
                    }
                    if matches!(at.0, Phase::Cleanup | Phase::ThreadDrop) {
                        self.ctx.probe("panic-in-drop-of-state");
                    }
                }
                model_release(r, slot, action);
                sim.cv_thread[slot].notify_all();
                (tid, action, at)
            };
            drop(g);
            last = Some(tid);
            ev(self.ctx, &[4, tid as u64, u64::from(action == Action::Panic)], || {
                format!(
                    "release t{tid} from {}#{}{}",
                    at.0.name(),
                    at.1,
                    if action == Action::Panic { " -> PANIC" } else { "" }
                )
            });
        }
    }

    /// Winds a round down after a violation was recorded: gates open, no more faults.
    fn abort_round(&mut self, idx: usize) -> Result<(), Violation> {
        let sim = self.sim;
        self.abnormal = true;
        let mut g = sim.lock();
        if let Some(r) = g.round.as_mut() {
            r.abort = true;
        }
        for c in &sim.cv_thread {
            c.notify_all();
        }
        let (g2, got) = sim.wait_until(g, abort_wait(), |st| st.outcome.is_some().then_some(()));
        g = g2;
        if got.is_none() {
            self.hung = true;
        }
        g.frame_release = true;
        sim.cv_caller.notify_all();
        let (g3, _) = sim.wait_until(g, abort_wait(), |st| st.frame_dead.then_some(()));
        g = g3;
        if g.outcome.as_ref().is_some_and(|o| matches!(o, Outcome::Unwound(_))) {
            self.pool_dead = true;
        }
        let v = g.violation.clone().unwrap_or_else(|| Violation::new("harness-error", format!("round {idx}: aborted without a violation")));
        Err(v)
    }

    /// `execute_on` is over: the instant the second half of the property is about.
    fn after_outcome(&mut self, idx: usize, spec: &RoundSpec, reject: bool) -> Result<(), Violation> {
        let sim = self.sim;
        let n = self.n;
        let mut g = sim.lock();
        let outcome = g.outcome.clone().expect("outcome present");
        let unwound = matches!(outcome, Outcome::Unwound(_));
        let live = g.live_at_return.clone();
        match &outcome {
            Outcome::Returned(o) => ev(self.ctx, &[5, o.len() as u64], || format!("execute_on returned with {} outputs", o.len())),
            Outcome::Unwound(m) => ev(self.ctx, &[6, hash_str(m)], || format!("execute_on unwound: {m}")),
        }

        // (a) No callback frame may be live at this instant.
        if !live.is_empty() {
            let who: Vec<String> = live
                .iter()
                .map(|(slot, at)| {
                    format!(
                        "t{} in {}",
                        self.tid_of_slot(*slot),
                        at.map_or("a callback".to_owned(), |a| format!("{}#{}", a.0.name(), a.1))
                    )
                })
                .collect();
            let fired: Vec<String> = g.round.as_ref().map_or(Vec::new(), |r| {
                r.fired.iter().map(|f| format!("t{} panicked in {}#{}", self.tid_of_slot(f.slot), f.phase.name(), f.iter)).collect()
            });
            Sim::violate(
                &mut g,
                if unwound { "use-after-unwind" } else { "use-after-return" },
                format!(
                    "round {idx}: at the instant execute_on {} a callback frame borrowing the caller's state was live on: {} ({})",
                    if unwound { "unwound" } else { "returned" },
                    who.join(", "),
                    fired.join(", ")
                ),
            );
            self.ctx.probe("callback-frame-live-when-execute_on-was-over");
        }
        // Threads that are neither finished nor dead nor inside a callback: stuck in the barrier.
        let stuck = g
            .round
            .as_ref()
            .map_or(0, |r| if r.gated { r.th.iter().filter(|t| t.st == St::AtBarrier).count() } else { 0 });
        if stuck > 0 {
            self.ctx.probe("workers-left-blocked-in-start-barrier");
            self.abnormal = true;
        }

        // (b) None may be entered afterwards: release what is still parked, one by one. Under Miri
        // the caller's frame is popped first, so that a late access is a dangling access.
        if cfg!(miri) {
            let (g2, got) = sim.wait_until(g, long_wait(), |st| st.frame_dead.then_some(()));
            g = g2;
            if got.is_none() {
                self.abnormal = true;
                self.hung = true;
                return Err(Violation::new("harness-error", "caller frame did not end".to_owned()));
            }
        }
        let gated = g.round.as_ref().is_some_and(|r| r.gated);
        if gated {
            let mut steps = 0_u64;
            loop {
                let (g2, ok) = sim.wait_until(g, long_wait(), |st| {
                    let r = st.round.as_ref().expect("round set");
                    (!r.th.iter().any(|t| (t.st == St::Running && !t.dying) || t.exiting)).then_some(())
                });
                g = g2;
                if ok.is_none() {
                    self.abnormal = true;
                    break;
                }
                let r = g.round.as_mut().expect("round set");
                let Some(tid) = (0..n).find(|t| r.th[self.slot_of_tid[*t]].st == St::Parked) else { break };
                let slot = self.slot_of_tid[tid];
                let at = r.th[slot].parked.unwrap_or((Phase::PrepThread, 0));
                model_release(r, slot, Action::Proceed);
                sim.cv_thread[slot].notify_all();
                steps += 1;
                ev(self.ctx, &[7, tid as u64, at.0.ix() as u64, at.1], || {
                    format!("after execute_on was over: release t{tid} from {}#{}", at.0.name(), at.1)
                });
                if steps > 4096 {
                    break;
                }
            }
            if steps > 0 {
                self.ctx.probe("drained-parked-workers-after-execute_on-was-over");
            }
        }
        g.frame_release = true;
        sim.cv_caller.notify_all();
        let (g2, got) = sim.wait_until(g, long_wait(), |st| st.frame_dead.then_some(()));
        g = g2;
        if got.is_none() {
            self.abnormal = true;
            self.hung = true;
            return Err(Violation::new("harness-error", "caller frame did not end".to_owned()));
        }
        if let Some(v) = g.violation.clone() {
            let late = g.round.as_ref().map_or(0, |r| r.late_touches);
            self.abnormal = true;
            if unwound {
                self.pool_dead = true;
            }
            return Err(Violation { class: v.class, detail: format!("{} [accesses observed after execute_on was over: {late}]", v.detail) });
        }

        // (c) Per-round oracles.
        let r = g.round.take().expect("round set");
        drop(g);
        self.evaluate(idx, spec, reject, &r, &outcome)
    }

    fn evaluate(&mut self, idx: usize, spec: &RoundSpec, reject: bool, r: &RoundState, outcome: &Outcome) -> Result<(), Violation> {
        let n = self.n;
        let fail = |class: &str, detail: String| Err(Violation::new(class, detail));
        if spec.aftermath {
            // Only the use-after oracles (evaluated in `after_outcome`) apply to a run on a pool that
            // lost workers; whether it unwinds (today: "worker thread must still exist") or works
            // is the library's choice.
            self.pool_dead = true;
            self.nontrivial = true;
            self.ctx.probe(match outcome {
                Outcome::Unwound(_) => "aftermath-round-refused",
                Outcome::Returned(_) => "aftermath-round-returned",
            });
            if r.th.iter().any(|t| t.seen) {
                self.ctx.probe("aftermath-round-ran-callbacks");
            }
            return Ok(());
        }
        if reject {
            let any_seen = r.th.iter().any(|t| t.seen);
            return match outcome {
                Outcome::Unwound(m) if m.contains("divisible") && !any_seen => {
                    self.ctx.probe("nondividing-group-count-rejected");
                    Ok(())
                }
                _ => fail(
                    "bad-groups-accepted",
                    format!("round {idx}: {n} threads, {} groups: expected the documented panic and no callback, got {outcome:?}, callbacks ran: {any_seen}", spec.groups),
                ),
            };
        }
        if !r.fired.is_empty() {
            self.pool_dead = true;
            if r.fired.len() > 1 {
                self.ctx.probe("several-threads-panicked");
            }
            if n >= 2 && r.fired.iter().any(|f| f.others_live > 0) {
                self.nontrivial = true;
                self.ctx.probe("panic-fired-while-another-thread-was-inside-a-callback");
            }
            if let Outcome::Returned(_) = outcome {
                return fail("panic-swallowed", format!("round {idx}: a callback panicked on {} threads but execute_on returned normally", r.fired.len()));
            }
        } else if let Outcome::Unwound(m) = outcome {
            self.pool_dead = true;
            self.abnormal = true;
            return fail("unexpected-unwind", format!("round {idx}: execute_on unwound without an injected fault: {m}"));
        }

        // Counts: for every thread that went through the whole run (all of them when nothing fired).
        let mut totals = [0_u64; PHASES];
        let names = [
            "wrong-prepare-thread-count",
            "wrong-prepare-iter-count",
            "wrong-measure-wrapper-count",
            "wrong-iteration-count",
            "wrong-measure-wrapper-count",
            "wrong-cleanup-count",
            "wrong-thread-state-drop-count",
        ];
        let any_expected = r.expected.iter().any(|e| *e > 0);
        for (slot, th) in r.th.iter().enumerate() {
            let complete = r.fired.is_empty() || (r.gated && th.done && !th.panicked);
            if !complete {
                continue;
            }
            for p in 0..PHASES {
                totals[p] += th.counts[p];
                if th.counts[p] != r.expected[p] {
                    return fail(
                        names[p],
                        format!(
                            "round {idx}: thread slot {slot}: {} callbacks of kind #{p} ({:?}), expected {:?}",
                            th.counts[p], th.counts, r.expected
                        ),
                    );
                }
            }
            if !th.balanced() {
                return fail("state-leak", format!("round {idx}: thread slot {slot} finished but not every state object was dropped: {th:?}"));
            }
            if any_expected && !th.seen {
                return fail("thread-did-not-participate", format!("round {idx}: no callback ran on thread slot {slot}"));
            }
        }

        if let Outcome::Returned(outs) = outcome {
            if outs.len() != n {
                return fail("wrong-output-count", format!("round {idx}: {} measure outputs for {n} threads", outs.len()));
            }
            // Even division among groups.
            let has_meta = spec.pt || spec.mw || spec.iterations > 0;
            if has_meta {
                let mut hist = vec![0_usize; spec.groups];
                for (slot, th) in r.th.iter().enumerate() {
                    match th.group {
                        Some(g) if g < spec.groups => hist[g] += 1,
                        other => return fail("wrong-meta", format!("round {idx}: thread slot {slot} saw group {other:?}")),
                    }
                }
                if hist.iter().any(|c| *c != n / spec.groups) {
                    return fail("uneven-groups", format!("round {idx}: {n} threads over {} groups were dealt {hist:?}", spec.groups));
                }
                if spec.groups > 1 {
                    self.ctx.probe("several-groups");
                }
            }
            // One output per thread, each the value that thread's measure_end produced.
            if spec.mw {
                let mut seen = vec![false; n];
                for (k, o) in outs.iter().enumerate() {
                    let Some(o) = o else { return fail("wrong-output", format!("round {idx}: output {k} missing")) };
                    if o.slot >= n || seen[o.slot] || o.round != idx || o.nonce != r.th[o.slot].ws_nonce {
                        return fail("wrong-output", format!("round {idx}: output {k} is {o:?}; not exactly one output per thread carrying that thread's wrapper state"));
                    }
                    seen[o.slot] = true;
                }
                let order: Vec<usize> = outs.iter().map(|o| o.as_ref().expect("checked").slot).collect();
                if self.mapping_known && n > 1 {
                    if order != self.slot_of_tid {
                        self.abnormal = true;
                        return fail(
                            "harness-assumption-await-order",
                            format!("round {idx}: outputs came back in worker order {order:?}, earlier {:?}: the await order is not fixed per pool, thread naming is unsound", self.slot_of_tid),
                        );
                    }
                } else if n > 1 {
                    self.slot_of_tid = order;
                    self.mapping_known = true;
                    self.ctx.probe("await-order-learned");
                }
            }
        }

        if n >= 2 && any_expected && r.fired.is_empty() && self.sc.rounds.iter().all(|x| x.panics.is_empty()) {
            self.nontrivial = true;
        }
        if spec.iterations == 0 {
            self.ctx.probe("zero-iterations");
        }
        if n == 16 {
            self.ctx.probe("sixteen-threads");
        }
        let g_hist = {
            let mut h = vec![0_u64; spec.groups.max(1)];
            for th in &r.th {
                if let Some(g) = th.group {
                    if g < h.len() {
                        h[g] += 1;
                    }
                }
            }
            h
        };
        let mut parts = vec![8_u64, idx as u64];
        parts.extend_from_slice(&totals);
        parts.extend_from_slice(&g_hist);
        ev(self.ctx, &parts, || format!("round {idx} done: callbacks per phase over complete threads {totals:?}, threads per group {g_hist:?}"));
        Ok(())
    }
}

pub fn run_scenario(sc: &ParScenario, ctx: &mut Ctx) -> Result<bool, Violation> {
    let n = sc.n;
    if n == 0 || n > 64 || sc.rounds.iter().any(|r| r.groups == 0 || r.iterations > 64) {
        return Ok(false);
    }
    let raw: *mut Sim = Box::into_raw(Box::new(Sim::new(n)));
    // SAFETY: `raw` comes from a live Box that is only freed at the end of this function, after
    // every thread that was given the reference has ended (otherwise it is leaked).
    let sim: &'static Sim = unsafe { &*raw };
    let sc_caller = sc.clone();
    let caller = std::thread::Builder::new()
        .name("caller".to_owned())
        .spawn(move || caller_main(sim, &sc_caller))
        .expect("spawn caller thread");

    let mut s = Sched {
        sim,
        sc,
        ctx,
        rng: Rng::new(sc.sub_seed),
        n,
        slot_of_tid: (0..n).collect(),
        mapping_known: n == 1,
        nontrivial: false,
        abnormal: false,
        pool_dead: false,
        hung: false,
    };
    ev(s.ctx, &[0, n as u64, sc.hw as u64, sc.regions as u64], || {
        format!("pool of {n} threads over a fake machine with {} processors in {} memory regions", sc.hw.max(n), sc.regions)
    });
    if sc.hw > n {
        s.ctx.probe("processor-set-smaller-than-machine");
    }

    let mut result: Result<(), Violation> = Ok(());
    {
        let g = sim.lock();
        let (g, got) = sim.wait_until(g, long_wait(), |st| st.pool_threads);
        drop(g);
        match got {
            None => {
                s.abnormal = true;
                s.hung = true;
                result = Err(Violation::new("pool-start-hang", "ThreadPool::new did not return".to_owned()));
            }
            Some(t) if t != n => {
                result = Err(Violation::new("wrong-thread-count", format!("pool over {n} processors reports {t} threads")));
            }
            Some(_) => {}
        }
    }
    if result.is_ok() {
        for (idx, spec) in sc.rounds.iter().enumerate() {
            // After a round in which callbacks panicked only an `aftermath` round is run.
            if s.pool_dead && !spec.aftermath {
                break;
            }
            if spec.aftermath && !s.pool_dead {
                continue;
            }
            result = s.round(idx, spec);
            if result.is_err() || s.hung {
                break;
            }
        }
    }

    // Dispose of the pool.
    let mut clean_exit = false;
    if !s.hung {
        {
            let mut g = sim.lock();
            g.round = None;
            g.cmd = Cmd::Dispose;
        }
        sim.cv_caller.notify_all();
        let g = sim.lock();
        let (g, got) = sim.wait_until(g, long_wait(), |st| st.disposed);
        let registered = sim.next_slot.load(std::sync::atomic::Ordering::SeqCst);
        let all_dead = g.dead.iter().take(registered.min(n)).all(|d| *d);
        drop(g);
        match got {
            None => {
                s.abnormal = true;
                if result.is_ok() {
                    result = Err(Violation::new("pool-drop-hang", "dropping the pool did not finish".to_owned()));
                }
            }
            Some(panicked) => {
                if !s.pool_dead && !s.abnormal && result.is_ok() {
                    if panicked {
                        result = Err(Violation::new("pool-drop-panicked", "dropping a healthy pool panicked".to_owned()));
                    } else if !all_dead || registered > n {
                        result = Err(Violation::new(
                            "pool-drop-did-not-join",
                            format!("after dropping the pool not every worker thread had exited ({registered} registered)"),
                        ));
                    } else {
                        clean_exit = true;
                    }
                }
                if panicked && s.pool_dead {
                    s.ctx.probe("pool-drop-panics-after-a-worker-died");
                }
            }
        }
    }
    let nontrivial = s.nontrivial;
    if clean_exit && caller.join().is_ok() {
        // SAFETY: the caller thread was joined and every worker that registered has run its
        // thread-local destructor before the pool's join returned; nobody else holds `sim`.
        unsafe { drop(Box::from_raw(raw)) };
    }
    result.map(|()| nontrivial)
}
