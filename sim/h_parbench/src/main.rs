//! h_parbench — property C17 (`par_bench`): exact callback counts on healthy runs, and no access to
//! state borrowed by a run's callbacks after `execute_on` has returned or unwound.
//!
//! See DESIGN.md §5 C17 and §6 finding 11. Structure:
//!
//! * `sim.rs`   — the control plane shared by the scheduler (the thread running `Scenario::run`), the
//!   *caller* thread (owns the `ThreadPool`, calls `execute_on`) and the pool's own worker threads
//!   (enter the callback seams). Every callback of a `Run` — including the `Drop` of the state
//!   objects the library carries around for the callbacks — is a seam.
//! * `exec.rs`  — the caller thread: fake hardware, pool, one stack frame per round holding the
//!   *borrowed* state and the configured run; all eight builder paths of `configure.rs`.
//! * `sched.rs` — the scheduler: per-thread model of the seam sequence and of the start barrier,
//!   one-runner discipline, stalls, injected panics, the oracles evaluated at the instant
//!   `execute_on` returns / unwinds and after every round.
//! * `gene.rs`  — scenario generation per mode (incl. the safe subset used while a known defect is
//!   listed in `AVOID_KNOWN`) and shrinking.

mod exec;
mod gene;
mod sched;
mod sim;

use serde::{Deserialize, Serialize};
use simkit::{Ctx, Rng, Scenario, Violation, entry};

/// Known defects of the unchanged tree whose trigger the ordinary modes must not generate.
///
/// * `c17-use-after-unwind` — `ThreadPool::execute_task` awaits the per-worker result channels in
///   a fixed order and panics on the first failed receive while other workers still run (or are
///   yet to run) closures whose lifetime was transmuted to `'static` (DESIGN §6 #11).
/// * `c17-prep-panic-hang` — a panic during preparation on a strict subset of the threads leaves
///   the others blocked in the start barrier for good; `execute_on` then never returns when one of
///   the stuck workers precedes the dead one in the await order (and otherwise unwinds leaving
///   stuck workers behind, after which the pool can neither be reused nor dropped cleanly).
///
/// Remove a key once the defect is fixed in /repo: the ordinary `faulty*` modes then generate the
/// full fault space (any subset of threads, any phase, any schedule).
// Both keys (c17-use-after-unwind, c17-prep-panic-hang) were fixed in /repo (10c00a7).
pub const AVOID_KNOWN: &[&str] = &[];

#[must_use]
pub fn avoiding(key: &str) -> bool {
    AVOID_KNOWN.contains(&key)
}

/// The callbacks of a run, in the order a thread goes through them. `Cleanup` is the `Drop` of the
/// value returned by the iteration body, `ThreadDrop` the `Drop` of the thread state.
#[derive(Clone, Copy, Debug, PartialEq, Eq, PartialOrd, Ord, Hash, Serialize, Deserialize)]
pub enum Phase {
    PrepThread,
    PrepIter,
    Begin,
    Iter,
    End,
    Cleanup,
    ThreadDrop,
}

pub const PHASES: usize = 7;

impl Phase {
    #[must_use]
    pub fn ix(self) -> usize {
        self as usize
    }

    #[must_use]
    pub fn name(self) -> &'static str {
        match self {
            Phase::PrepThread => "prepare_thread",
            Phase::PrepIter => "prepare_iter",
            Phase::Begin => "measure_begin",
            Phase::Iter => "iter",
            Phase::End => "measure_end",
            Phase::Cleanup => "cleanup_drop",
            Phase::ThreadDrop => "thread_state_drop",
        }
    }

    /// Preparation happens before the library's start barrier.
    #[must_use]
    pub fn pre_barrier(self) -> bool {
        matches!(self, Phase::PrepThread | Phase::PrepIter)
    }
}

/// A place in a thread's callback sequence: `(thread, phase, iteration)`. Threads are named by
/// their position in the pool's result-await order (see `sched.rs`).
#[derive(Clone, Copy, Debug, PartialEq, Eq, Serialize, Deserialize)]
pub struct At {
    pub tid: usize,
    pub phase: Phase,
    pub iter: u64,
}

#[derive(Clone, Debug, PartialEq, Eq, Serialize, Deserialize)]
pub struct RoundSpec {
    pub groups: usize,
    pub iterations: u64,
    /// Which optional builder stages are configured (`configure.rs` has a distinct path for each).
    pub pt: bool,
    pub pi: bool,
    pub mw: bool,
    /// At which builder stage `.groups()` is called (0 = initial … 3 = after measure_wrapper;
    /// clamped to the last stage the shape has).
    pub groups_at: u8,
    /// Gated: every callback parks until the scheduler releases it (one runner at a time).
    /// Not gated: the workers run freely and concurrently; fault-free only.
    pub gated: bool,
    /// Probability (percent) that the scheduler keeps running the thread it ran last.
    pub sticky: u8,
    /// A stalled thread is held at that callback until no other thread can move (slow node).
    pub stalls: Vec<At>,
    /// A round executed on the same pool *after* a round in which callbacks panicked (the caller
    /// caught the unwind and tries again). The pool may refuse (unwind) - but no callback of this
    /// round may be live or start once that `execute_on` call is over. Every worker that does enter
    /// a callback of this round is held there until the call is over (slow callback).
    #[serde(default)]
    pub aftermath: bool,
    pub panics: Vec<At>,
}

impl RoundSpec {
    /// The callback sequence every thread goes through and the number of callbacks before the
    /// start barrier.
    #[must_use]
    pub fn seam_seq(&self) -> (Vec<(Phase, u64)>, usize) {
        let mut seq = Vec::new();
        if self.pt {
            seq.push((Phase::PrepThread, 0));
        }
        if self.pi {
            seq.extend((0..self.iterations).map(|k| (Phase::PrepIter, k)));
        }
        let barrier_at = seq.len();
        if self.mw {
            seq.push((Phase::Begin, 0));
        }
        seq.extend((0..self.iterations).map(|k| (Phase::Iter, k)));
        if self.mw {
            seq.push((Phase::End, 0));
        }
        seq.extend((0..self.iterations).map(|k| (Phase::Cleanup, k)));
        if self.pt {
            seq.push((Phase::ThreadDrop, 0));
        }
        (seq, barrier_at)
    }

    #[must_use]
    pub fn expected_counts(&self) -> [u64; PHASES] {
        let it = self.iterations;
        [
            u64::from(self.pt),
            if self.pi { it } else { 0 },
            u64::from(self.mw),
            it,
            u64::from(self.mw),
            it,
            u64::from(self.pt),
        ]
    }
}

#[derive(Clone, Debug, PartialEq, Eq, Serialize, Deserialize)]
pub struct ParScenario {
    pub mode: String,
    /// Threads in the pool (= processors in the processor set).
    pub n: usize,
    /// Processors of the fake machine (≥ n; the set is `take(n)` of them when larger).
    pub hw: usize,
    pub regions: usize,
    pub rounds: Vec<RoundSpec>,
    pub sub_seed: u64,
}

impl Scenario for ParScenario {
    fn generate(rng: &mut Rng, mode: &str) -> Self {
        gene::generate(rng, mode)
    }

    fn run(&self, ctx: &mut Ctx) -> Result<bool, Violation> {
        sched::run_scenario(self, ctx)
    }

    fn shrink(&self) -> Vec<Self> {
        gene::shrink(self)
    }

    fn size(&self) -> usize {
        gene::size(self)
    }
}

fn main() {
    simkit::cli_main(
        "h_parbench",
        vec![
            entry::<ParScenario>("C17", "strict", "1–16 threads, 1–3 rounds per pool, no faults: exact counts, even groups, released together, one output per thread, nothing live at return"),
            entry::<ParScenario>("C17", "faulty", "as strict, last round with injected callback panics and stalls (safe subset while AVOID_KNOWN lists the known defects): nothing live or entered after execute_on unwinds"),
            entry::<ParScenario>("C17", "strict-small", "1–4 threads, iterations 0–2 (Miri-sized), no faults"),
            entry::<ParScenario>("C17", "faulty-small", "1–4 threads, iterations 0–2 (Miri-sized), injected panics and stalls"),
            entry::<ParScenario>("C17", "known-c17-use-after-unwind", "directed: the first-awaited worker panics while another worker is parked inside a callback (DESIGN §6 #11)").isolated(),
            entry::<ParScenario>("C17", "known-c17-prep-panic-hang", "directed: a later-awaited worker panics in preparation; the first-awaited one blocks in the start barrier and execute_on never returns").isolated(),
        ],
    )
}
