//! Scenario generation per mode, and shrinking.

use simkit::Rng;

use crate::{At, ParScenario, Phase, RoundSpec, avoiding};

pub fn generate(rng: &mut Rng, mode: &str) -> ParScenario {
    match mode {
        "faulty" => ordinary(rng, mode, true, false),
        "strict-small" => ordinary(rng, mode, false, true),
        "faulty-small" => ordinary(rng, mode, true, true),
        "known-c17-use-after-unwind" => known_use_after_unwind(rng, mode),
        "known-c17-prep-panic-hang" => known_prep_panic_hang(rng, mode),
        _ => ordinary(rng, mode, false, false),
    }
}

fn divisors(n: usize) -> Vec<usize> {
    (1..=n).filter(|d| n % d == 0).collect()
}

fn at_of(seq: &[(Phase, u64)], tid: usize, i: usize) -> At {
    At { tid, phase: seq[i].0, iter: seq[i].1 }
}

fn warm_up(rng: &mut Rng, n: usize, max_iter: u64) -> RoundSpec {
    RoundSpec {
        groups: *rng.pick(&divisors(n)),
        iterations: rng.range(0, max_iter),
        pt: true,
        pi: true,
        mw: true,
        groups_at: rng.below(4) as u8,
        gated: false,
        sticky: 0,
        stalls: Vec::new(),
        panics: Vec::new(),
        aftermath: false,
    }
}

fn ordinary(rng: &mut Rng, mode: &str, faulty: bool, small: bool) -> ParScenario {
    let n = if small {
        [1, 2, 2, 2, 2, 3, 3, 3, 4, 4, 4][rng.below_usize(11)]
    } else {
        match rng.weighted(&[1, 14, 8, 3, 2]) {
            0 => 1,
            1 => rng.range_usize(2, 8),
            2 => rng.range_usize(9, 16),
            3 => 16,
            _ => 12,
        }
    };
    let hw = if rng.chance(1, 4) { (n + rng.range_usize(1, 3)).min(if small { n + 1 } else { 16 }).max(n) } else { n };
    let regions = rng.range_usize(1, hw.min(4));
    let mut rounds = Vec::new();
    // A free-running round with every stage configured: real concurrency, and it teaches the
    // harness the pool's await order (needed to name threads in gated rounds of pools of ≥ 2).
    if n >= 2 || rng.bool() {
        rounds.push(warm_up(rng, n, if small { 1 } else { 2 }));
    }
    let mains = if small { 1 } else { rng.range_usize(1, 2) };
    for m in 0..mains {
        let last = m + 1 == mains;
        let inject = faulty && last;
        let groups = if !inject && n >= 2 && rng.chance(1, 25) {
            // Not a divisor: the documented panic, and no callback may run.
            let bad: Vec<usize> = (2..=n + 1).filter(|g| n % g != 0).collect();
            *rng.pick(&bad)
        } else {
            *rng.pick(&divisors(n))
        };
        let iterations = if small {
            [0, 0, 1, 1, 1, 2, 2][rng.below_usize(7)]
        } else {
            [0, 0, 1, 1, 1, 2, 2, 2, 3, 3, 4, 5, 6, 7, 8][rng.below_usize(15)]
        };
        let mut spec = RoundSpec {
            groups,
            iterations,
            pt: rng.chance(3, 4),
            pi: rng.chance(2, 3),
            mw: rng.chance(3, 4),
            groups_at: rng.below(4) as u8,
            gated: inject || rng.chance(3, 4),
            sticky: *rng.pick(&[0_u8, 0, 50, 90]),
            stalls: Vec::new(),
            panics: Vec::new(),
            aftermath: false,
        };
        if inject {
            plan_faults(rng, n, &mut spec);
        } else if spec.gated {
            let (seq, _) = spec.seam_seq();
            if !seq.is_empty() {
                for _ in 0..rng.below(3) {
                    let s = at_of(&seq, rng.below_usize(n), rng.below_usize(seq.len()));
                    spec.stalls.push(s);
                }
            }
        }
        let fired_possible = inject && !spec.panics.is_empty();
        rounds.push(spec);
        if fired_possible && n >= 2 && rng.chance(1, 2) {
            // The caller catches the unwind and runs once more on the same pool.
            let mut again = warm_up(rng, n, 1);
            again.aftermath = true;
            rounds.push(again);
        }
    }
    ParScenario { mode: mode.to_owned(), n, hw, regions, rounds, sub_seed: rng.next_u64() }
}

/// Fault plan of the last round of a faulty scenario.
///
/// Threads are named by await position: the pool awaits `t0` first. `execute_on` unwinds at the
/// first moment at which the first thread in await order that has not delivered a result is dead.
/// With `D` the set of panicking threads and `d* = min(D)`:
///
/// * full space (no key in `AVOID_KNOWN`): any non-empty `D`, any callback, any stalls;
/// * while `c17-use-after-unwind` is listed, only schedules in which *every* thread has ended
///   (finished or dead) by the time `execute_on` unwinds, which is exactly:
///   - one-thread pools: anything;
///   - (A) every panic is after the start barrier, and the thread that ends last has await
///     position ≤ `d*` — enforced by stalling one thread `l ≤ d*` (at its panic callback when
///     `l = d*`, else at any callback after the barrier) until no other thread can move;
///   - (B) *all* threads panic during preparation and `t0` is the last to do so (stalled at its
///     panic callback). A preparation panic on a strict subset leaves the others in the start
///     barrier for good: that is `c17-prep-panic-hang`, avoided separately.
fn plan_faults(rng: &mut Rng, n: usize, spec: &mut RoundSpec) {
    let (seq, barrier_at) = spec.seam_seq();
    if seq.is_empty() {
        return;
    }
    let pre: Vec<usize> = (0..barrier_at).collect();
    let post: Vec<usize> = (barrier_at..seq.len()).collect();
    let random_stalls = |rng: &mut Rng, spec: &mut RoundSpec, from: &[usize]| {
        if from.is_empty() {
            return;
        }
        for _ in 0..rng.below(3) {
            let s = at_of(&seq, rng.below_usize(n), *rng.pick(from));
            spec.stalls.push(s);
        }
    };
    let random_subset = |rng: &mut Rng| {
        let mut d: Vec<usize> = (0..n).filter(|_| rng.chance(1, 3)).collect();
        if d.is_empty() {
            d.push(rng.below_usize(n));
        }
        d
    };
    let all: Vec<usize> = (0..seq.len()).collect();

    if n == 1 {
        spec.panics.push(at_of(&seq, 0, rng.below_usize(seq.len())));
        random_stalls(rng, spec, &all);
        return;
    }
    let avoid_uau = avoiding("c17-use-after-unwind");
    let avoid_hang = avoiding("c17-prep-panic-hang");
    if !avoid_uau && !avoid_hang {
        for d in random_subset(rng) {
            spec.panics.push(at_of(&seq, d, rng.below_usize(seq.len())));
        }
        random_stalls(rng, spec, &all);
        return;
    }
    if !avoid_uau {
        // Any schedule; preparation panics only on all threads at once.
        if !post.is_empty() && (pre.is_empty() || rng.chance(3, 4)) {
            for d in random_subset(rng) {
                spec.panics.push(at_of(&seq, d, *rng.pick(&post)));
            }
        } else if !pre.is_empty() {
            for d in 0..n {
                spec.panics.push(at_of(&seq, d, *rng.pick(&pre)));
            }
        }
        random_stalls(rng, spec, &all);
        return;
    }
    // Safe subset.
    if !post.is_empty() && (pre.is_empty() || rng.chance(3, 4)) {
        // (A)
        let d = random_subset(rng);
        let mut panic_seam = vec![usize::MAX; n];
        for t in &d {
            panic_seam[*t] = *rng.pick(&post);
            spec.panics.push(at_of(&seq, *t, panic_seam[*t]));
        }
        let d_star = *d.iter().min().expect("non-empty");
        let l = rng.range_usize(0, d_star);
        random_stalls(rng, spec, &pre);
        let hold = if l == d_star { panic_seam[l] } else { *rng.pick(&post) };
        spec.stalls.push(at_of(&seq, l, hold));
    } else if !pre.is_empty() {
        // (B)
        let mut t0_seam = 0;
        for t in 0..n {
            let s = *rng.pick(&pre);
            if t == 0 {
                t0_seam = s;
            }
            spec.panics.push(at_of(&seq, t, s));
        }
        spec.stalls.push(at_of(&seq, 0, t0_seam));
    }
}

/// Narrow generator for DESIGN §6 #11: `t0` (awaited first) panics while another thread is parked
/// inside a callback, so `execute_on` unwinds under that thread's feet.
fn known_use_after_unwind(rng: &mut Rng, mode: &str) -> ParScenario {
    let n = rng.range_usize(2, 4);
    let mut rounds = vec![warm_up(rng, n, 0)];
    let after_barrier = rng.chance(7, 10);
    let mut spec = RoundSpec {
        groups: *rng.pick(&divisors(n)),
        iterations: rng.range(0, 2),
        pt: if after_barrier { rng.bool() } else { true },
        pi: rng.bool(),
        mw: if after_barrier { true } else { rng.bool() },
        groups_at: rng.below(4) as u8,
        gated: true,
        sticky: *rng.pick(&[0_u8, 50]),
        stalls: Vec::new(),
        panics: Vec::new(),
        aftermath: false,
    };
    let (seq, barrier_at) = spec.seam_seq();
    let range: Vec<usize> = if after_barrier { (barrier_at..seq.len()).collect() } else { (0..barrier_at).collect() };
    let victim = rng.range_usize(1, n - 1);
    spec.panics.push(at_of(&seq, 0, *rng.pick(&range)));
    spec.stalls.push(at_of(&seq, victim, *rng.pick(&range)));
    rounds.push(spec);
    ParScenario { mode: mode.to_owned(), n, hw: n, regions: 1, rounds, sub_seed: rng.next_u64() }
}

/// Narrow generator for the start-barrier hang: a thread other than `t0` panics in preparation,
/// `t0` reaches the barrier, which can never fill, and the pool awaits `t0` for ever.
fn known_prep_panic_hang(rng: &mut Rng, mode: &str) -> ParScenario {
    let n = rng.range_usize(2, 4);
    let mut rounds = vec![warm_up(rng, n, 0)];
    let mut spec = RoundSpec {
        groups: *rng.pick(&divisors(n)),
        iterations: rng.range(0, 2),
        pt: true,
        pi: rng.bool(),
        mw: rng.bool(),
        groups_at: rng.below(4) as u8,
        gated: true,
        sticky: 0,
        stalls: Vec::new(),
        panics: Vec::new(),
        aftermath: false,
    };
    let (seq, barrier_at) = spec.seam_seq();
    spec.panics.push(at_of(&seq, rng.range_usize(1, n - 1), rng.below_usize(barrier_at)));
    rounds.push(spec);
    ParScenario { mode: mode.to_owned(), n, hw: n, regions: 1, rounds, sub_seed: rng.next_u64() }
}

// ----------------------------------------------------------------------------------------------
// Shrinking
// ----------------------------------------------------------------------------------------------

pub fn size(sc: &ParScenario) -> usize {
    let ats = |v: &[At]| v.iter().map(|a| a.tid + a.iter as usize).sum::<usize>();
    sc.n * 3
        + sc.hw.saturating_sub(sc.n)
        + sc.regions.saturating_sub(1)
        + sc.rounds
            .iter()
            .map(|r| {
                8 + 2 * r.iterations as usize
                    + usize::from(r.pt)
                    + usize::from(r.pi)
                    + usize::from(r.mw)
                    + usize::from(r.groups > 1)
                    + usize::from(r.groups_at)
                    + usize::from(r.sticky > 0)
                    + usize::from(r.gated)
                    + 4 * r.panics.len()
                    + 3 * r.stalls.len()
                    + ats(&r.panics)
                    + ats(&r.stalls)
            })
            .sum::<usize>()
}

/// Drops fault-plan entries that no longer refer to an existing thread or callback.
fn repair(sc: &mut ParScenario) {
    let n = sc.n;
    sc.hw = sc.hw.max(n);
    sc.regions = sc.regions.clamp(1, sc.hw.min(4));
    for r in &mut sc.rounds {
        let (seq, _) = r.seam_seq();
        let ok = |a: &At| a.tid < n && seq.contains(&(a.phase, a.iter));
        r.panics.retain(ok);
        r.stalls.retain(ok);
        if r.groups == 0 {
            r.groups = 1;
        }
    }
}

pub fn shrink(sc: &ParScenario) -> Vec<ParScenario> {
    let mut out: Vec<ParScenario> = Vec::new();
    let mut push = |mut c: ParScenario| {
        repair(&mut c);
        if size(&c) < size(sc) && c != *sc {
            out.push(c);
        }
    };
    // Fewer rounds.
    if sc.rounds.len() > 1 {
        for i in 0..sc.rounds.len() {
            let mut c = sc.clone();
            c.rounds.remove(i);
            push(c);
        }
    }
    // Fewer threads.
    let mut ns: Vec<usize> = vec![1, 2, sc.n / 2, sc.n.saturating_sub(1)];
    ns.retain(|x| *x >= 1 && *x < sc.n);
    ns.sort_unstable();
    ns.dedup();
    for n2 in ns {
        let mut c = sc.clone();
        c.n = n2;
        c.hw = c.hw.min(n2.max(1)).max(n2);
        for r in &mut c.rounds {
            let was_bad = sc.n % r.groups != 0;
            if !was_bad && n2 % r.groups != 0 {
                r.groups = 1;
            }
        }
        push(c);
    }
    if sc.hw > sc.n {
        let mut c = sc.clone();
        c.hw = c.n;
        push(c);
    }
    if sc.regions > 1 {
        let mut c = sc.clone();
        c.regions = 1;
        push(c);
    }
    for (i, r) in sc.rounds.iter().enumerate() {
        for j in 0..r.panics.len() {
            let mut c = sc.clone();
            c.rounds[i].panics.remove(j);
            push(c);
        }
        for j in 0..r.stalls.len() {
            let mut c = sc.clone();
            c.rounds[i].stalls.remove(j);
            push(c);
        }
        let mut its: Vec<u64> = vec![0, r.iterations / 2, r.iterations.saturating_sub(1)];
        its.retain(|x| *x < r.iterations);
        its.dedup();
        for it in its {
            let mut c = sc.clone();
            c.rounds[i].iterations = it;
            push(c);
        }
        if r.pt {
            let mut c = sc.clone();
            c.rounds[i].pt = false;
            push(c);
        }
        if r.pi {
            let mut c = sc.clone();
            c.rounds[i].pi = false;
            push(c);
        }
        if r.mw {
            let mut c = sc.clone();
            c.rounds[i].mw = false;
            push(c);
        }
        if r.groups > 1 {
            let mut c = sc.clone();
            c.rounds[i].groups = 1;
            push(c);
        }
        if r.groups_at > 0 {
            let mut c = sc.clone();
            c.rounds[i].groups_at = 0;
            push(c);
        }
        if r.sticky > 0 {
            let mut c = sc.clone();
            c.rounds[i].sticky = 0;
            push(c);
        }
        if r.gated && r.panics.is_empty() && r.stalls.is_empty() {
            let mut c = sc.clone();
            c.rounds[i].gated = false;
            push(c);
        }
        for j in 0..r.panics.len() {
            if r.panics[j].iter > 0 {
                let mut c = sc.clone();
                c.rounds[i].panics[j].iter = 0;
                push(c);
            }
        }
        for j in 0..r.stalls.len() {
            if r.stalls[j].iter > 0 {
                let mut c = sc.clone();
                c.rounds[i].stalls[j].iter = 0;
                push(c);
            }
        }
    }
    out
}
