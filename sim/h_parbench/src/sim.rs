//! Control plane: state shared by the scheduler, the caller thread and the pool's worker threads,
//! and the callback seam itself.
//!
//! The `Sim` object is always valid (it is leaked unless the scenario ended cleanly with every
//! thread joined), in contrast to the *borrowed* state `Borrowed`, which lives in the stack frame
//! of the caller thread that calls `execute_on` — under Miri that frame is genuinely popped as
//! soon as `execute_on` has returned or unwound, natively it is kept alive until the scheduler has
//! drained the parked workers so that a late access is *observed* (flag) instead of being
//! undefined behaviour of the harness.

use std::cell::{Cell, RefCell};
use std::sync::atomic::{AtomicBool, AtomicU64, AtomicUsize, Ordering};
use std::sync::{Condvar, Mutex, MutexGuard};
use std::time::Duration;

use par_bench::RunMeta;
use simkit::Violation;

use crate::{PHASES, Phase, RoundSpec};

/// State the run's callbacks borrow from the frame that calls `execute_on`.
pub struct Borrowed {
    /// Set by the caller as soon as `execute_on` has returned or unwound. Every callback reads it.
    pub returned: AtomicBool,
    pub touches: AtomicU64,
}

impl Borrowed {
    pub fn new() -> Self {
        Self {
            returned: AtomicBool::new(false),
            touches: AtomicU64::new(0),
        }
    }

    /// An access to the borrowed state. Returns whether it happened after `execute_on` was over
    /// (native oracle). Under Miri such an access is a dangling access to a popped stack frame.
    pub fn touch(&self) -> bool {
        self.touches.fetch_add(1, Ordering::Relaxed);
        self.returned.load(Ordering::SeqCst)
    }
}

#[derive(Clone, Copy, Debug, PartialEq, Eq)]
pub enum St {
    /// Running library or harness code on its way to the next observable point.
    Running,
    /// Parked at a gate inside a callback.
    Parked,
    /// (model) blocked in the library's start barrier.
    AtBarrier,
    /// (model) past its last callback of this round.
    Done,
    /// The worker thread has exited (thread-local destructor ran).
    Dead,
}

#[derive(Clone, Copy, Debug, PartialEq, Eq)]
pub enum Action {
    Proceed,
    Panic,
}

#[derive(Clone, Copy, Debug, PartialEq, Eq)]
pub struct TsInfo {
    pub slot: usize,
    pub round: usize,
    pub nonce: u64,
}

/// Per-thread record of one round.
#[derive(Clone, Debug)]
pub struct Th {
    pub st: St,
    pub parked: Option<(Phase, u64)>,
    pub go: bool,
    /// Released by the scheduler and not yet out of the callback (past its last access).
    pub exiting: bool,
    /// Released into an injected panic: expected to end with the worker thread's exit.
    pub dying: bool,
    /// (model) went through its last callback of this round.
    pub done: bool,
    /// (model, repaired library) panicked in preparation, on its way through the start barrier.
    pub zombie: bool,
    pub action: Action,
    /// Callbacks currently on this thread's stack.
    pub in_cb: u32,
    /// Callback entries per phase outside unwinding.
    pub counts: [u64; PHASES],
    /// Drops of state objects that ran while the thread was unwinding.
    pub unwind_drops: u64,
    pub last_phase: usize,
    pub prep_exits: usize,
    pub group: Option<usize>,
    pub seen: bool,
    pub panicked: bool,
    pub ts_nonce: u64,
    pub ws_nonce: u64,
    // Lifecycle of the state objects the library carries for the callbacks.
    pub ts_created: u64,
    pub ts_dropped: u64,
    pub is_created: u64,
    pub is_consumed: u64,
    pub is_unused: u64,
    pub ws_created: u64,
    pub ws_ended: u64,
    pub ws_unused: u64,
    pub cs_created: u64,
    pub cs_dropped: u64,
    // Scheduler-side model.
    pub pos: usize,
    pub observed: bool,
    pub stall_counted: bool,
}

impl Th {
    fn new() -> Self {
        Self {
            st: St::Done,
            parked: None,
            go: false,
            exiting: false,
            dying: false,
            done: false,
            zombie: false,
            action: Action::Proceed,
            in_cb: 0,
            counts: [0; PHASES],
            unwind_drops: 0,
            last_phase: 0,
            prep_exits: 0,
            group: None,
            seen: false,
            panicked: false,
            ts_nonce: 0,
            ws_nonce: 0,
            ts_created: 0,
            ts_dropped: 0,
            is_created: 0,
            is_consumed: 0,
            is_unused: 0,
            ws_created: 0,
            ws_ended: 0,
            ws_unused: 0,
            cs_created: 0,
            cs_dropped: 0,
            pos: 0,
            observed: false,
            stall_counted: false,
        }
    }

    /// Every state object the callbacks created on this thread has been dropped / consumed.
    pub fn balanced(&self) -> bool {
        self.ts_created == self.ts_dropped
            && self.is_created == self.is_consumed + self.is_unused
            && self.ws_created == self.ws_ended + self.ws_unused
            && self.cs_created == self.cs_dropped
    }
}

#[derive(Clone, Debug)]
pub struct Fired {
    pub slot: usize,
    pub phase: Phase,
    pub iter: u64,
    /// Other threads that were inside a callback when the panic fired.
    pub others_live: usize,
}

pub struct RoundState {
    pub idx: usize,
    pub n: usize,
    pub spec: RoundSpec,
    pub gated: bool,
    /// Set when the round is being wound down: gates no longer park, no more panics.
    pub abort: bool,
    pub seq: Vec<(Phase, u64)>,
    pub barrier_at: usize,
    pub expected: [u64; PHASES],
    pub th: Vec<Th>,
    /// Threads that have left their last preparation callback.
    pub prep_done: usize,
    /// (model) threads that have arrived at the start barrier.
    pub arrived: usize,
    pub fired: Vec<Fired>,
    pub over: bool,
    pub unwound: bool,
    pub late_touches: u64,
}

#[derive(Clone, Debug, PartialEq, Eq)]
pub struct OutData {
    pub slot: usize,
    pub round: usize,
    pub nonce: u64,
}

#[derive(Clone, Debug)]
pub enum Outcome {
    /// `execute_on` returned; one entry per measure output (`None` when the run has no wrapper).
    Returned(Vec<Option<OutData>>),
    Unwound(String),
}

#[derive(Clone, Copy, Debug, PartialEq, Eq)]
pub enum Cmd {
    Idle,
    Round(usize),
    Dispose,
}

pub struct State {
    pub round: Option<RoundState>,
    /// Worker threads that have exited, by slot.
    pub dead: Vec<bool>,
    pub violation: Option<Violation>,
    pub next_nonce: u64,
    pub cmd: Cmd,
    pub pool_threads: Option<usize>,
    pub outcome: Option<Outcome>,
    /// Slots with a callback frame on their stack at the instant `execute_on` was over.
    pub live_at_return: Vec<(usize, Option<(Phase, u64)>)>,
    pub frame_release: bool,
    pub frame_dead: bool,
    /// `Some(panicked)` once the pool has been dropped.
    pub disposed: Option<bool>,
}

pub struct Sim {
    pub m: Mutex<State>,
    /// The scheduler waits here.
    pub cv: Condvar,
    /// The caller thread waits here.
    pub cv_caller: Condvar,
    /// Worker `slot` waits here while parked at a gate.
    pub cv_thread: Vec<Condvar>,
    pub next_slot: AtomicUsize,
}

/// Identity of a pool worker as seen by the harness; its destructor reports the thread's exit.
struct Me {
    sim: &'static Sim,
    slot: usize,
}

impl Drop for Me {
    fn drop(&mut self) {
        let mut g = self.sim.lock();
        if let Some(d) = g.dead.get_mut(self.slot) {
            *d = true;
        }
        if let Some(r) = g.round.as_mut() {
            if let Some(th) = r.th.get_mut(self.slot) {
                th.st = St::Dead;
            }
        }
        drop(g);
        self.sim.cv.notify_all();
    }
}

thread_local! {
    static ME: RefCell<Option<Me>> = const { RefCell::new(None) };
}

fn my_slot(sim: &'static Sim) -> usize {
    ME.with(|m| {
        let mut m = m.borrow_mut();
        if let Some(me) = m.as_ref() {
            if std::ptr::eq(me.sim, sim) {
                return me.slot;
            }
        }
        let slot = sim.next_slot.fetch_add(1, Ordering::SeqCst);
        *m = Some(Me { sim, slot });
        slot
    })
}

pub struct Ticket {
    pub slot: usize,
    pub round: usize,
    pub iter: u64,
    pub nonce: u64,
}

impl Sim {
    pub fn new(n: usize) -> Self {
        Self {
            m: Mutex::new(State {
                round: None,
                dead: vec![false; n],
                violation: None,
                next_nonce: 1,
                cmd: Cmd::Idle,
                pool_threads: None,
                outcome: None,
                live_at_return: Vec::new(),
                frame_release: false,
                frame_dead: false,
                disposed: None,
            }),
            cv: Condvar::new(),
            cv_caller: Condvar::new(),
            cv_thread: (0..n).map(|_| Condvar::new()).collect(),
            next_slot: AtomicUsize::new(0),
        }
    }

    pub fn lock(&self) -> MutexGuard<'_, State> {
        // A panic injected by the fault plan never fires while the lock is held; should some other
        // panic poison it, the state is still the best information available.
        self.m.lock().unwrap_or_else(std::sync::PoisonError::into_inner)
    }

    /// Waits until `cond` holds; `None` on timeout. Time is wall-clock natively and the
    /// interpreter's virtual clock under Miri (which jumps when every thread is blocked).
    pub fn wait_until<'a, T>(
        &'a self,
        mut g: MutexGuard<'a, State>,
        timeout: Duration,
        mut cond: impl FnMut(&mut State) -> Option<T>,
    ) -> (MutexGuard<'a, State>, Option<T>) {
        let deadline = std::time::Instant::now() + timeout;
        loop {
            if let Some(v) = cond(&mut g) {
                return (g, Some(v));
            }
            let now = std::time::Instant::now();
            if now >= deadline {
                return (g, None);
            }
            g = self
                .cv
                .wait_timeout(g, deadline - now)
                .unwrap_or_else(std::sync::PoisonError::into_inner)
                .0;
        }
    }

    pub fn new_round(n: usize, idx: usize, spec: &RoundSpec, gated: bool) -> RoundState {
        let (seq, barrier_at) = spec.seam_seq();
        RoundState {
            idx,
            n,
            spec: spec.clone(),
            gated,
            abort: false,
            expected: spec.expected_counts(),
            seq,
            barrier_at,
            th: (0..n).map(|_| Th::new()).collect(),
            prep_done: if barrier_at == 0 { n } else { 0 },
            arrived: 0,
            fired: Vec::new(),
            over: false,
            unwound: false,
            late_touches: 0,
        }
    }

    // ------------------------------------------------------------------------------------------
    // Caller-thread side
    // ------------------------------------------------------------------------------------------

    pub fn next_cmd(&self) -> Cmd {
        let mut g = self.lock();
        loop {
            if g.cmd != Cmd::Idle {
                let c = g.cmd;
                g.cmd = Cmd::Idle;
                return c;
            }
            g = self.cv_caller.wait(g).unwrap_or_else(std::sync::PoisonError::into_inner);
        }
    }

    pub fn post_pool_ready(&self, threads: usize) {
        self.lock().pool_threads = Some(threads);
        self.cv.notify_all();
    }

    /// Called by the caller at the instant `execute_on` is over (after `Borrowed::returned` was
    /// set): records which threads have a callback frame on their stack right now.
    pub fn post_outcome(&self, b: &Borrowed, outcome: Outcome) {
        let mut g = self.lock();
        b.returned.store(true, Ordering::SeqCst);
        let unwound = matches!(outcome, Outcome::Unwound(_));
        let mut live = Vec::new();
        if let Some(r) = g.round.as_mut() {
            r.over = true;
            r.unwound = unwound;
            for (slot, th) in r.th.iter().enumerate() {
                if th.in_cb > 0 {
                    live.push((slot, th.parked));
                }
            }
        }
        g.live_at_return = live;
        g.outcome = Some(outcome);
        drop(g);
        self.cv.notify_all();
    }

    /// Native only: keep the frame that owns the borrowed state and the configured run alive
    /// until the scheduler has drained the parked workers.
    pub fn wait_frame_release(&self) {
        let mut g = self.lock();
        while !g.frame_release {
            g = self.cv_caller.wait(g).unwrap_or_else(std::sync::PoisonError::into_inner);
        }
    }

    pub fn post_frame_dead(&self) {
        self.lock().frame_dead = true;
        self.cv.notify_all();
    }

    pub fn post_disposed(&self, panicked: bool) {
        self.lock().disposed = Some(panicked);
        self.cv.notify_all();
    }

    // ------------------------------------------------------------------------------------------
    // Worker side: the seam
    // ------------------------------------------------------------------------------------------

    pub fn violate(st: &mut State, class: &str, detail: String) {
        if st.violation.is_none() {
            st.violation = Some(Violation::new(class, detail));
        }
    }

    fn late(st: &mut State, slot: usize, phase: Phase, iter: u64, how: &str) {
        let (unwound, idx) = st.round.as_ref().map_or((false, 0), |r| (r.unwound, r.idx));
        if let Some(r) = st.round.as_mut() {
            r.late_touches += 1;
        }
        let class = if unwound { "use-after-unwind" } else { "use-after-return" };
        Self::violate(
            st,
            class,
            format!(
                "round {idx}: worker slot {slot} {how} {}#{iter} and accessed the state borrowed by the callbacks after execute_on had {}",
                phase.name(),
                if unwound { "unwound" } else { "returned" }
            ),
        );
    }

    /// One callback invocation. Records it, evaluates the per-invocation oracles, parks at the
    /// gate when the round is gated, and panics when the scheduler's release says so.
    ///
    /// `ts`: `None` when this callback is not handed the thread state, `Some(x)` when it is
    /// (`x == None` for shapes without a `prepare_thread` stage).
    pub fn seam(
        &'static self,
        b: &Borrowed,
        phase: Phase,
        meta: Option<&RunMeta>,
        ts: Option<Option<TsInfo>>,
        on_exit: impl FnOnce(&mut RoundState, usize, u64) -> Option<(&'static str, String)>,
    ) -> Ticket {
        // First access to the borrowed state: at callback entry.
        let late_entry = b.touch();
        let slot = my_slot(self);
        let unwinding = std::thread::panicking();
        let mut g = self.lock();
        let nonce = g.next_nonce;
        g.next_nonce += 1;
        let dummy = Ticket { slot, round: usize::MAX, iter: 0, nonce };
        let n_slots = g.round.as_ref().map_or(0, |r| r.th.len());
        if g.round.is_none() {
            Self::violate(&mut g, "callback-outside-run", format!("{} invoked while no execute_on is in progress", phase.name()));
            return dummy;
        }
        if slot >= n_slots {
            Self::violate(&mut g, "extra-thread", format!("callbacks ran on more than {n_slots} distinct threads"));
            return dummy;
        }
        let iter = {
            let r = g.round.as_mut().expect("checked");
            let th = &mut r.th[slot];
            th.seen = true;
            th.in_cb += 1;
            if unwinding {
                th.unwind_drops += 1;
                0
            } else {
                let k = th.counts[phase.ix()];
                th.counts[phase.ix()] += 1;
                k
            }
        };
        if late_entry {
            Self::late(&mut g, slot, phase, iter, "entered");
        }
        if !unwinding {
            self.entry_checks(&mut g, slot, phase, iter, meta, ts);
        }

        let mut action = Action::Proceed;
        let gated = {
            let r = g.round.as_ref().expect("checked");
            r.gated && !r.abort && !unwinding
        };
        if gated {
            {
                let r = g.round.as_mut().expect("checked");
                let th = &mut r.th[slot];
                th.st = St::Parked;
                th.parked = Some((phase, iter));
                th.observed = false;
            }
            self.cv.notify_all();
            loop {
                g = self.cv_thread[slot].wait(g).unwrap_or_else(std::sync::PoisonError::into_inner);
                let r = g.round.as_mut().expect("round outlives its parked threads");
                let abort = r.abort;
                let th = &mut r.th[slot];
                if th.go {
                    th.go = false;
                    action = th.action;
                    th.action = Action::Proceed;
                    th.parked = None;
                    break;
                }
                if abort {
                    th.parked = None;
                    if th.st == St::Parked {
                        th.st = St::Running;
                    }
                    break;
                }
            }
            drop(g);
        } else {
            let hold = !unwinding && g.round.as_ref().is_some_and(|r| r.spec.aftermath);
            if hold {
                // A slow callback: stay inside it until the `execute_on` call of this round is over
                // (bounded, so a pool that waits for its workers is not deadlocked by the harness).
                let (g2, _) = self.wait_until(g, Duration::from_secs(3), |st| st.outcome.is_some().then_some(()));
                drop(g2);
            } else {
                drop(g);
            }
            if !unwinding {
                // A preemption point inside the callback for free-running rounds.
                std::thread::yield_now();
            }
        }

        // Second access: what a callback does after a stall.
        let late_wake = b.touch();

        let mut g = self.lock();
        if late_wake && !late_entry {
            Self::late(&mut g, slot, phase, iter, "was inside");
        }
        let r = g.round.as_mut().expect("checked");
        let aborting = r.abort;
        let others_live = r.th.iter().enumerate().filter(|(s, t)| *s != slot && t.in_cb > 0).count();
        let barrier_at = r.barrier_at;
        let th = &mut r.th[slot];
        th.in_cb -= 1;
        th.exiting = false;
        let mut prep_finished = false;
        if !unwinding {
            match phase {
                Phase::Cleanup => th.cs_dropped += 1,
                Phase::ThreadDrop => th.ts_dropped += 1,
                _ => {}
            }
            if phase.pre_barrier() {
                th.prep_exits += 1;
                prep_finished = th.prep_exits == barrier_at;
            }
        } else {
            match phase {
                Phase::Cleanup => th.cs_dropped += 1,
                Phase::ThreadDrop => th.ts_dropped += 1,
                _ => {}
            }
        }
        let fire = action == Action::Panic && !aborting && !unwinding;
        if fire {
            th.panicked = true;
        } else {
            match phase {
                Phase::PrepThread => {
                    th.ts_created += 1;
                    th.ts_nonce = nonce;
                }
                Phase::PrepIter => th.is_created += 1,
                Phase::Begin => {
                    th.ws_created += 1;
                    th.ws_nonce = nonce;
                }
                _ => {}
            }
        }
        // Preparation is over for this thread: completed, or failed.
        if (prep_finished && !fire) || (fire && phase.pre_barrier()) {
            r.prep_done += 1;
        }
        if fire {
            r.fired.push(Fired { slot, phase, iter, others_live });
        }
        let round = r.idx;
        let gated_round = r.gated;
        // Bookkeeping of the callback body proper, still part of the callback as far as the
        // scheduler is concerned (it runs before `exiting` becomes visible as cleared).
        let found = if fire || round == usize::MAX { None } else { on_exit(r, slot, iter) };
        if let Some((class, detail)) = found {
            Self::violate(&mut g, class, detail);
        }
        drop(g);
        if gated_round {
            self.cv.notify_all();
        }
        if fire {
            panic!("injected panic in {}#{iter}", phase.name());
        }
        Ticket { slot, round, iter, nonce }
    }

    fn entry_checks(
        &self,
        g: &mut MutexGuard<'_, State>,
        slot: usize,
        phase: Phase,
        iter: u64,
        meta: Option<&RunMeta>,
        ts: Option<Option<TsInfo>>,
    ) {
        let st: &mut State = g;
        let r = st.round.as_mut().expect("checked");
        let idx = r.idx;
        let mut found: Option<(&str, String)> = None;
        {
            let expected = r.expected[phase.ix()];
            let n = r.n;
            let prep_done = r.prep_done;
            let groups = r.spec.groups;
            let iters = r.spec.iterations;
            let has_pt = r.spec.pt;
            let th = &mut r.th[slot];
            if phase.ix() < th.last_phase {
                found = Some((
                    "callback-out-of-order",
                    format!("round {idx}: slot {slot}: {}#{iter} invoked after a later phase", phase.name()),
                ));
            }
            th.last_phase = th.last_phase.max(phase.ix());
            if found.is_none() && iter + 1 > expected {
                let class = match phase {
                    Phase::PrepThread => "wrong-prepare-thread-count",
                    Phase::PrepIter => "wrong-prepare-iter-count",
                    Phase::Begin | Phase::End => "wrong-measure-wrapper-count",
                    Phase::Iter => "wrong-iteration-count",
                    Phase::Cleanup | Phase::ThreadDrop => "double-drop",
                };
                found = Some((
                    class,
                    format!("round {idx}: slot {slot}: {} invoked {} times, expected {expected}", phase.name(), iter + 1),
                ));
            }
            if found.is_none() && !phase.pre_barrier() && prep_done < n {
                found = Some((
                    "released-early",
                    format!(
                        "round {idx}: slot {slot} entered {}#{iter} while only {prep_done} of {n} threads had finished preparation",
                        phase.name()
                    ),
                ));
            }
            if let (None, Some(m)) = (&found, meta) {
                let gi = m.group_index();
                if m.group_count().get() != groups
                    || m.thread_count().get() != n
                    || m.iterations() != iters
                    || gi >= groups
                    || th.group.is_some_and(|g0| g0 != gi)
                {
                    found = Some((
                        "wrong-meta",
                        format!(
                            "round {idx}: slot {slot} {}#{iter}: meta group {gi}/{} threads {} iterations {} (expected groups {groups}, threads {n}, iterations {iters}, earlier group {:?})",
                            phase.name(),
                            m.group_count(),
                            m.thread_count(),
                            m.iterations(),
                            th.group
                        ),
                    ));
                }
                th.group = Some(gi);
            }
            if let (None, Some(got)) = (&found, ts) {
                let ok = match (has_pt, got) {
                    (true, Some(i)) => i.slot == slot && i.round == idx && i.nonce == th.ts_nonce,
                    (false, None) => true,
                    _ => false,
                };
                if !ok {
                    found = Some((
                        "state-mixup",
                        format!("round {idx}: slot {slot} {}#{iter} was handed thread state {got:?}", phase.name()),
                    ));
                }
            }
        }
        if let Some((class, detail)) = found {
            Self::violate(st, class, detail);
        }
    }

    /// A state object was dropped without having been handed to the callback that consumes it
    /// (only legitimate while the thread unwinds).
    pub fn unused_drop(&'static self, b: &Borrowed, what: &'static str) {
        let late = b.touch();
        let slot = my_slot(self);
        let unwinding = std::thread::panicking();
        let mut g = self.lock();
        let Some(r) = g.round.as_mut() else { return };
        let idx = r.idx;
        let Some(th) = r.th.get_mut(slot) else { return };
        th.unwind_drops += 1;
        match what {
            "iter_state" => th.is_unused += 1,
            _ => th.ws_unused += 1,
        }
        if late {
            Self::late(&mut g, slot, Phase::Iter, 0, if what == "iter_state" { "dropped an unused iteration state of" } else { "dropped an unused wrapper state of" });
        }
        if !unwinding {
            Self::violate(&mut g, "state-dropped-unused", format!("round {idx}: slot {slot}: {what} dropped without being passed to its callback"));
        }
    }
}

/// Marker used by state objects to remember whether they were consumed.
pub type Flag = Cell<bool>;
