#!/usr/bin/env python3
"""Prints the brief given to an independent sub-agent that writes seeded property-breaking changes.
usage: seed_prompt.py <ID> [suffix]   (the agent gets the property text and its own scratch worktree, nothing from /verif)"""
import json, sys
pid = sys.argv[1]
suffix = sys.argv[2] if len(sys.argv) > 2 else ""
first = int(sys.argv[3]) if len(sys.argv) > 3 else 1
focus = sys.argv[4] if len(sys.argv) > 4 else ""
FOCUS = {
 "": "",
 "deep": "\nAdditional requirement for this round: go for DEPTH. Both changes must need at least two things to coincide before they manifest (for example: a particular history of earlier operations AND an injected failure such as a panicking callback / failing system call / I/O error / crash at one specific point; or a boundary configuration AND a particular operation order; or two cooperating edits in different files that are each harmless alone). Prefer code paths that look rarely exercised (error paths, clean-up after failure, boundary arithmetic, second and later rounds of reuse, teardown) over the main path. A change that a five-line sequential test of the public API would expose is too shallow.\n",
 "schedule": "\nAdditional requirement for this round: BOTH changes must be concurrency defects — they must need a specific cross-thread interleaving (a window of a few instructions or a particular order of two threads' steps) or a weak-memory reordering to manifest, and must be invisible to every single-threaded sequence of operations (including re-entrant callbacks on one thread). Changes that merely remove a whole lock or make every concurrent run fail are too coarse: ordinary use must still work almost always.\n",
}[focus]
prop = next(json.loads(l) for l in open('/verif/properties.jsonl') if json.loads(l)['id'] == pid)
wt = f"/tmp/seed_wt_{pid}{suffix}"
a, b = first, first + 1
print(f"""You are helping to evaluate a verification effort for the Rust workspace folo-rs/folo (hardware-aware libraries). Your working copy is `{wt}`, a scratch git worktree of the repository: edit and build there freely, never commit. Do NOT read, list or touch `/verif` or `/repo` — your work must be independent of any existing verification machinery (reading it would invalidate the experiment). The sandbox is offline: always pass `--offline` to cargo, use `CARGO_TARGET_DIR={wt}/target` and `-j 4` (other jobs share this machine).

The property under study (a semantic guarantee users of the library rely on):

{json.dumps(prop, indent=1)}

{FOCUS}
Task: produce TWO different changes (different mechanisms / code sites) to the library source under `{wt}/packages/`, each of which BREAKS this property and yet
 (a) still compiles (whole workspace: `cargo build --workspace --offline` is not required, but the changed package and its dependents must compile);
 (b) passes the existing test suite of the changed package(s) unedited (`cargo test -p <package> --offline` in the worktree, plus the tests of packages that directly depend on the changed code when that is quick);
 (c) needs something specific to manifest — a particular interleaving, a crash or fault at a particular point, a multi-step sequence of operations, an unusual input or configuration, or two cooperating sites that each look fine alone — NOT something ordinary use would expose at once;
 (d) is realistic: the kind of defect a plausible refactor, optimisation or "simplification" could introduce. Do not edit tests, benches, docs, code under `cfg(folo_verif)` (verification hooks), `cfg(test)` code or debug-only assertions; do not add an artificial trigger such as `if x == 12345`.

For each change k in {{{a}, {b}}} write into `/tmp/seed_out/{pid}-k/`:
 * `patch.diff` — `git -C {wt} diff` of that change alone against HEAD (must apply with `git apply` at the repository root);
 * `demo/` — a small standalone program (own Cargo.toml with a `[workspace]` table, path dependencies into `<repo-root>/packages/...`) plus `demo/run.sh <repo-root>`: it copies itself to a `mktemp -d` directory under /tmp (removed on exit), copies `<repo-root>/Cargo.lock` next to its Cargo.toml for offline resolution, builds with `--offline -j 4` and runs; exit 0 iff the property held, non-zero iff it was violated. It must exit 0 on the unpatched tree and non-zero with the patch applied, reliably (if the manifestation is schedule-dependent the demo may retry many times, hold threads at chosen points, or run under Miri with `cargo +nightly miri run --offline` — but it must fail in at least 9 of 10 runs with the patch and never without it, and finish within ~5 minutes);
 * `meta.json` — {{"property": "{pid}", "title", "files", "what_breaks", "needs_to_manifest", "why_existing_tests_pass", "how_demonstrated" (the commands you ran and what they printed)}}.

Procedure: read the code the property is anchored in; pick a change; apply it; run the package tests (they must pass); write and run the demo against the patched worktree (must fail) and — after `git -C {wt} stash` or saving the diff and `git -C {wt} checkout -- .` — against the clean worktree (must pass). Reset the worktree between the two changes. At the end leave the worktree clean (`git -C {wt} checkout -- .`, do not remove it), and delete scratch files you created under /tmp other than `/tmp/seed_out/{pid}-*`. If after honest effort you can only produce one change that satisfies (a)–(d), deliver one and say so.

Your final message: for each change, two or three sentences on what it does, what it needs to manifest and what you ran.""")
