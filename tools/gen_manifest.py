#!/usr/bin/env python3
"""Regenerates /verif/MANIFEST.json from the table below plus the harness plans (which checks exist).

A property is listed under `checks` only if some harness plan serves it; otherwise it must be in
NOT_APPLICABLE below. Run after adding/removing a harness: `python3 tools/gen_manifest.py`.
"""
import glob
import json
import os
import subprocess

ROOT = os.path.dirname(os.path.dirname(os.path.abspath(__file__)))

HOOK_COMMITS_GREP = "verif hook"

TEXT = {
    "C01": ("seeded operation histories over all nine pool types vs a reference model, address/alignment/overlap/canary and bookkeeping-probe oracles after every operation, slab capacity randomised down to 1-8 (deterministic simulation, native + Miri sample)",
            "Seeded search over histories and tuning-knob values: evidence, not proof. Every run is a pure function of its scenario; violations are minimised and replayed. The real pool code runs; payload types and the slab-capacity override (hook H1) are the simulator's.",
            "Trusts the reference model in the harness, the H1 probe (read-only) and Miri's allocator/borrow model for the 'not shared with freed memory' clause."),
    "C02": ("seeded operation histories vs reference model with per-object destruction counters and accounting/iteration oracles after every operation (deterministic simulation, native + Miri sample)",
            "Seeded search over histories, both drop policies and all pool types; exactly-once destruction is checked at the instant of every destructor call, accounting after every step.",
            "Trusts the harness's reference model; payload destructors are simulator-owned."),
    "C03": ("op-granular seeded thread schedules on real threads (native coordinator) + Miri-scheduled real threads with data-race/UAF/leak detection; auto-trait clause decided by compiling probe programs and executing the wrongly admitted ones under Miri",
            "Seeded search over schedules; the native coordinator explores exactly the interleavings that exist at pool-operation granularity (every pool operation is one critical section), Miri explores preemption inside operations with weak memory. The admission matrix is rustc's verdict, not a simulation (said so in evidence).",
            "Trusts Miri's scheduler/memory model as a stand-in for all schedules; the matrix of probe programs is finite and listed."),
    "C04": ("seeded histories with injected panics (destructor / init closure / iteration closure) and re-entrant callbacks as simulator-owned seams; reference model continues after every fault; Miri as exact deadlock/UB oracle",
            "Fault-injecting deterministic simulation: fault kinds fire at PRNG-chosen invocations, the model treats a panicking destructor as 'destroyed once' and a panicking insert_with as 'nothing inserted', and every later operation is checked. Known findings are reproduced by directed modes and excluded from the ordinary generator.",
            "Native hang detection uses a wall-clock bound under a one-runner schedule; exact under Miri."),
    "C05": ("Miri as seeded deterministic scheduler (preemption + C11 weak memory) over real sender/receiver threads with harness oracles (outcome model, exactly-once payload, lost-wake-up check at quiescence); op-granular native interleavings in bulk, with the waker callbacks as a scheduling seam (the sender's whole action placed re-entrantly inside a chosen clone/drop callback, or the receiver held there until the sender is done)",
            "Seeded search over schedules and weak-memory outcomes of the real state machine, dev and release profiles, three preemption rates; the lost-wake-up clause is stated without timing (after both threads are joined, the waker of a last-Pending poll must have been woken and the next poll must be Ready).",
            "Miri's weak-memory emulation covers a subset of C11 behaviours (no load buffering); schedules are sampled, not enumerated."),
    "C06": ("Miri as seeded scheduler + vector-clock data-race detector: the release (dealloc / harness poison write at the H2 notification / slot re-initialisation by rental traffic) conflicts with every earlier access of the other endpoint unless it happens-before; release count, pool/lake emptiness and leak checks at quiescence",
            "One execution of a path with a missing happens-before edge is convicted regardless of timing; seeded search decides which paths are taken. All six storage strategies, dev and release profiles (the debug-only diagnostics mutex hides missing edges in dev).",
            "Same Miri caveats as C05; hook H2 only notifies, it adds no synchronisation before the release."),
    "C07": ("seeded single-threaded programs where every waker callback (clone/wake/wake_by_ref/drop) is a simulator seam performing nested endpoint operations; outcome/exactly-once/release/waker-accounting oracles; embedded storage poisoned at release; Miri sample as UAF/aliasing oracle",
            "Seeded search over re-entrant programs to nesting depth 3 over boxed/embedded/pooled storage; native bulk plus Miri sample.",
            "Callbacks can only perform what safe code could (the endpoint not borrowed by the running operation)."),
    "C08": ("Miri-scheduled real threads produce stamped invoke/response histories checked for linearizability (Wing-Gong, nondeterministic sequential spec) incl. a quiescent drain phase; native sequential histories for local variants and the awaiter set against a list model; re-entrant single-thread modes in which every waker callback (wake/clone/drop) performs nested operations on the same event, their intervals nested inside the outer operation's and checked by the same linearizability search",
            "Seeded search over schedules/weak memory with a linearizability checker over the recorded history; 'latest waker invoked' checked at quiescence.",
            "Histories are capped (<= 14 operations, <= 3 threads); stamps are Relaxed RMWs (no added happens-before)."),
    "C09": ("seeded input generation against an independent brute-force oracle; the only simulated nondeterminism is the library's own entropy (rand::rng, foldhash seed), fixed by the Miri seed so each case replays exactly",
            "Weak claim, stated honestly: there is no schedule, clock, I/O or fault here. The simulation family contributes only the entropy seam (Miri as deterministic executor); the rest is seeded generation vs brute force.",
            "Native runs are not exactly replayable when a failure depends on the library's random choice; Miri replay is."),
    "C10": ("op histories against a simulated kernel behind the Bindings seam (EINVAL-until-wide-enough, migration faults, randomised kernel mask width) with a reference model of per-thread pin state; plus direct check against the real kernel for subsets of this sandbox's CPUs",
            "Simulated-kernel part: fault-injecting deterministic simulation of the real mask-building and bookkeeping code (hook H3). Real-kernel part: real code on the real OS (not a simulation), enumerates all 2^16-1 subsets in the thorough tier.",
            "The simulated kernel is a model; only the real-kernel part speaks about the OS, and only for this sandbox."),
    "C11": ("generated machine descriptions served through a simulated /proc,/sys behind the Filesystem seam (hook H3) with absent-file and hot-plug-between-reads faults, vs an independent interpretation; the codec clause is seeded generation (pure function), labelled as such",
            "Fault-injecting deterministic simulation of the real parsing/cross-referencing code; oracle relaxed only under hot-plug (no panic; every reported processor was listed by the reading served).",
            "Generator covers the variations listed in the property; well-formedness is the generator's definition."),
    "C12": ("Miri-scheduled racing first access and nested initialisers (exact deadlock detection) over macro-generated statics; native coordinator programs moving/dropping per-thread references across real threads with an instance-lifecycle oracle",
            "Seeded search over schedules and programs; family tags prove one initial instance; lifecycle log proves <=1 instance per (wrapper, thread) and drop at last aligned reference.",
            "Known findings reproduced by directed modes; ordinary generators avoid their triggers until fixed."),
    "C13": ("Miri-scheduled reader/writer/initialiser threads over fake memory regions with stamped writes/reads; own-write, per-writer monotonicity and quiescent-convergence oracles; panicking Clone as injected fault",
            "Seeded search over schedules incl. racing region initialisation (arc-swap and rsevents interpreted).",
            "Fake hardware stub (many_cpus::fake); stamps are Relaxed RMWs."),
    "C14": ("Miri-scheduled spawner threads, real worker threads and pool drop with cooperative yield points (hook H4); run-once, processor-affinity and handle-resolution oracles; dependent-task scenarios spawned exactly when every worker is parked; liveness = no deadlock reported by the interpreter",
            "Seeded search over schedules of spawn / lazy worker start-up / shutdown; lost wake-ups and unresolved handles surface as interpreter-detected deadlock, no timeouts.",
            "Throughput is low (worker threads interpreted); H4 yield points bias the scheduler toward the interesting windows."),
    "C15": ("seeded operation histories with simulator-owned futures and parent wakers vs a reference deque and wake/poll causality oracle; Miri-scheduled cross-thread wake/clone/drop of the hand-written RawWaker, with data published before each wake that the woken future's poll must observe",
            "Seeded search over histories (native bulk) and schedules (Miri) with drop-exactly-once and leak/UAF oracles.",
            "Contained futures and wakers are simulator-owned."),
    "C16": ("seeded observe/batch/push/report/thread-exit histories on real threads via the op-granular coordinator vs reference aggregation; Miri-scheduled concurrent reports checked as monotone lower bounds",
            "Seeded search over histories, bucket configurations (>63 buckets, extreme bounds) and schedules; quiescent reports must equal the model exactly.",
            "Event names are unique per run because registries are process-global."),
    "C17": ("every benchmark callback is a simulator seam that records, may stall on a gate and may panic; strict count/grouping/barrier oracles; under faults: no callback frame live or entered after execute returns/unwinds (flag oracle natively, dangling-access oracle under Miri), including aftermath rounds on a pool that lost workers in an earlier caught panic",
            "Fault-injecting deterministic simulation over fake hardware 1-16 processors; panics and stalls at PRNG-chosen (thread, phase, iteration).",
            "Worker/group assignment is symmetric up to start-up order, which the trace hash excludes."),
    "C18": ("allocator seam (Allocator<SimAlloc>) logging every request and optionally returning null; scripted alloc/realloc/dealloc histories over 1-16 simulated threads with nested/overlapping spans vs the log; installed-global-allocator binary for the bootstrap re-entrancy guard",
            "Fault-injecting deterministic simulation of the tracker with the inner allocator as the stub; exact equality with the SimAlloc log at every span end.",
            "Counters are compared as differences; the installed-mode binary only checks against the log filtered by thread."),
    "C19": ("real filesystem + real tokio::fs with named points (hook H5): child process aborted at the k-th occurrence of a point (crash), injected io::Error / RLIMIT_FSIZE short write (error), gated tasks with PRNG-chosen interleaving (schedule), all against a reference map",
            "Fault-injecting deterministic simulation of the write path: crash points, I/O errors and task schedules are seeded; after every fault the store is reopened and checked (old or new complete object, no temp files listed, nothing outside the root).",
            "Durability across power loss (page cache) is out of scope: a crash is process death; the kernel keeps written data."),
}

NOT_APPLICABLE = {
    "C20": "pure functions of their inputs (cbh_stats): no schedule, clock, I/O, fault or interleaving for a simulator to control; deciding it needs exhaustive/brute-force comparison over small inputs, which is a different technique (see DESIGN.md §5 C20)",
}

NOT_BUILT_REASON = "no check is registered for this property in this revision (harness not completed); not claimed"


def main():
    served = {}
    with open(os.path.join(ROOT, "sim", "READY")) as f:
        ready = {l.strip() for l in f if l.strip() and not l.startswith("#")}
    for path in sorted(glob.glob(os.path.join(ROOT, "sim", "h_*", "plan.json"))):
        with open(path) as f:
            plan = json.load(f)
        if plan["harness"] not in ready:
            continue
        for pid, p in plan.get("properties", {}).items():
            served.setdefault(pid, []).append(plan["harness"])
    props = [json.loads(l)["id"] for l in open(os.path.join(ROOT, "properties.jsonl"))]
    hooks = subprocess.run(["git", "-C", "/repo", "log", "--format=%h %s", "--grep", HOOK_COMMITS_GREP],
                           stdout=subprocess.PIPE, text=True).stdout.strip().splitlines()
    checks = []
    not_applicable = []
    for pid in props:
        if pid in NOT_APPLICABLE:
            not_applicable.append({"property_id": pid, "reason": NOT_APPLICABLE[pid]})
            continue
        if pid not in served or pid == "SELFTEST":
            not_applicable.append({"property_id": pid, "reason": NOT_BUILT_REASON})
            continue
        technique, text, note = TEXT[pid]
        checks.append({
            "property_id": pid,
            "quick_cmd": f"./check {pid} --tier quick",
            "thorough_cmd": f"./check {pid} --tier thorough",
            "evidence_file": f"evidence/{pid}.json",
            "replay_cmd_template": "./check replay {path}",
            "engine": "+".join(sorted(set(served[pid]))),
            "level_claimed": {"category": "exploration", "text": text, "design_ref": f"DESIGN.md §5 {pid}"},
            "level_note": note,
            "technique": "deterministic simulation with fault injection: " + technique,
        })
    manifest = {
        "version": 1,
        "setup_cmd": "./check build",
        "hooks": {
            "guard": "--cfg folo_verif",
            "enable": "RUSTFLAGS=\"--cfg folo_verif\" (set by ./check for every harness build, native and Miri)",
            "baseline_off_cmd": "cd /repo && cargo nextest run --workspace --no-fail-fast --test-threads 8 --offline || cargo test --workspace --no-fail-fast --offline",
            "source_commits": [h.split()[0] for h in hooks],
            "add_only": True,
        },
        "engines": [
            {"name": "native", "path": "sim/simkit", "serves_properties": sorted(served),
             "kind_free_text": "in-process PRNG-driven simulator: scenario = complete serialisable run description (the replay file), op-granular thread coordinator over real threads, callback seams, fault plans, probes, reference-model oracles, linearizability checker, delta-debugging minimiser"},
            {"name": "miri", "path": "check", "serves_properties": sorted(served),
             "kind_free_text": "the same harness binaries executed by Miri used as a seeded deterministic scheduler (-Zmiri-seed, -Zmiri-preemption-rate) with C11 weak-memory emulation and data-race/UB/leak/deadlock detection; dev and release profiles"},
        ],
        "checks": checks,
        "not_applicable": not_applicable,
        "notes": "See DESIGN.md. ./check <ID> --tier quick|thorough; ./check replay <file>; ./check selftest. Known findings: known_findings.json.",
    }
    with open(os.path.join(ROOT, "MANIFEST.json"), "w") as f:
        json.dump(manifest, f, indent=1)
    print(f"{len(checks)} checks, {len(not_applicable)} not applicable")


if __name__ == "__main__":
    main()
