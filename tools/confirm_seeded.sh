#!/bin/bash
# Confirms a seeded property-breaking change produced by an independent sub-agent and, if it holds up,
# stores it under /verif/seeded/<name>/.
#   tools/confirm_seeded.sh <src dir with patch.diff, demo/run.sh, meta.json> <name e.g. C02-1> <cargo package> [worktree]
# Confirms, in a scratch worktree of /repo (outside /repo and /verif):
#   1. the demo passes on the clean tree;            2. the patch applies;
#   3. the package's own tests still pass with it;   4. the demo fails with it.
set -u
SRC=$1; NAME=$2; PKG=$3; WT=${4:-/tmp/confirm_wt_$NAME}
LOG=/tmp/confirm_$NAME.log
: > "$LOG"
if [ ! -d "$WT" ]; then git -C /repo worktree add -q "$WT" HEAD >>"$LOG" 2>&1 || { echo "$NAME: cannot create worktree"; exit 2; }; fi
git -C "$WT" checkout -q -- . && git -C "$WT" clean -fdq -e target
export CARGO_TARGET_DIR=$WT/target CARGO_NET_OFFLINE=true CARGO_BUILD_JOBS=${JOBS:-6}
status() { echo "$NAME: $*"; echo "$NAME: $*" >>"$LOG"; }
chmod +x "$SRC/demo/run.sh" 2>/dev/null
( cd "$SRC/demo" && timeout 3000 ./run.sh "$WT" ) >>"$LOG" 2>&1; CLEAN=$?
if [ $CLEAN -ne 0 ]; then status "REJECT demo fails on the clean tree (rc=$CLEAN)"; exit 1; fi
git -C "$WT" apply "$SRC/patch.diff" >>"$LOG" 2>&1 || { status "REJECT patch does not apply"; exit 1; }
( cd "$WT" && timeout 3000 cargo test -p "$PKG" --offline ) >>"$LOG" 2>&1; TESTS=$?
if [ $TESTS -ne 0 ]; then status "REJECT package tests fail with the patch (rc=$TESTS)"; git -C "$WT" checkout -q -- .; exit 1; fi
( cd "$SRC/demo" && timeout 3000 ./run.sh "$WT" ) >>"$LOG" 2>&1; PATCHED=$?
git -C "$WT" checkout -q -- . && git -C "$WT" clean -fdq -e target
if [ $PATCHED -eq 0 ]; then status "REJECT demo passes with the patch"; exit 1; fi
DEST=/verif/seeded/$NAME
mkdir -p "$DEST"
cp "$SRC/patch.diff" "$DEST/patch.diff"
rm -rf "$DEST/demo"; cp -r "$SRC/demo" "$DEST/demo"; rm -rf "$DEST/demo/target" "$DEST/demo"/*/target
python3 - "$SRC/meta.json" "$DEST/meta.json" "$NAME" "$PKG" "$CLEAN" "$TESTS" "$PATCHED" <<'EOF'
import json, sys
src, dst, name, pkg, clean, tests, patched = sys.argv[1:]
try:
    meta = json.load(open(src))
except Exception as e:
    meta = {"note": f"agent meta.json unreadable: {e}"}
meta["seeded_id"] = name
meta["confirmed_by_maintainer"] = {
    "worktree": "scratch git worktree of /repo under /tmp (removed afterwards)",
    "demo_on_clean_tree_rc": int(clean), "package_tests_with_patch": f"cargo test -p {pkg} --offline rc={tests}",
    "demo_with_patch_rc": int(patched)}
json.dump(meta, open(dst, "w"), indent=1)
EOF
status "CONFIRMED (clean demo rc=0, tests pass with patch, demo rc=$PATCHED with patch) -> $DEST"
