#!/bin/bash
# For every seeded change given (default: all under /verif/seeded that have no detection.json yet) runs the
# registered quick check of its property against a scratch copy of /repo with the change applied
# (tools/run_against.sh) and records the outcome in seeded/<id>/detection.json.
#   tools/detect_seeded.sh [--force] [<id> ...]
cd /verif
FORCE=0; if [ "${1:-}" = "--force" ]; then FORCE=1; shift; fi
IDS="$@"; if [ -z "$IDS" ]; then IDS=$(ls seeded); fi
for id in $IDS; do
  d=seeded/$id
  [ -f $d/patch.diff ] || continue
  if [ $FORCE -eq 0 ] && [ -f $d/detection.json ]; then continue; fi
  prop=${id%%-*}
  if [ -n "${RECORD_ONLY_RC:-}" ]; then rc=$RECORD_ONLY_RC; else
    tools/run_against.sh /verif/$d/patch.diff $prop quick > /tmp/mut_out/$id.summary 2>&1
    rc=$?
  fi
  python3 - "$id" "$prop" "$rc" <<'PY'
import json, sys, os, re, subprocess
sid, prop, rc = sys.argv[1], sys.argv[2], int(sys.argv[3])
out = f"/tmp/mut_out/{sid}-{prop}"
ev = {}
try:
    ev = json.load(open(f"{out}/evidence/{prop}.json"))
except Exception as e:
    ev = {"error": str(e)}
cov = ev.get("coverage", {})
viol = [{"job": v["job"], "engine": v["engine"], "class": v["class"], "index": v["index"],
         "replay_reproduces": v["replay_reproduces"], "minimise": v.get("minimise"),
         "detail": v["detail"][:300]}
        for v in cov.get("violations_reported", []) if not v.get("known_finding")]
head = subprocess.run(["git", "-C", "/verif", "rev-parse", "--short", "HEAD"], capture_output=True, text=True).stdout.strip()
rec = {"seeded_id": sid, "property": prop, "check": f"./check {prop} --tier quick (via tools/run_against.sh: patched worktree bind-mounted over /repo)",
       "verif_commit": head, "exit_code": rc, "detected": rc == 1 and bool(viol),
       "runs": cov.get("evaluations"), "wall_s": ev.get("wall_s"), "violations": viol}
json.dump(rec, open(f"/verif/seeded/{sid}/detection.json", "w"), indent=1)
print(sid, "detected" if rec["detected"] else f"NOT DETECTED (rc={rc})", [v["class"][:60] + " @" + v["job"] for v in viol][:4])
PY
done
