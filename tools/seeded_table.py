#!/usr/bin/env python3
"""Prints the markdown table of seeded changes and which check caught them (from seeded/*/meta.json + detection.json)."""
import glob, json, os
rows = []
for d in sorted(glob.glob('/verif/seeded/*')):
    sid = os.path.basename(d)
    try:
        meta = json.load(open(f'{d}/meta.json'))
    except Exception:
        continue
    det = None
    if os.path.exists(f'{d}/detection.json'):
        det = json.load(open(f'{d}/detection.json'))
    title = (meta.get('title') or meta.get('what_breaks', ''))[:150].replace('|', '/').replace('\n', ' ')
    needs = (meta.get('needs_to_manifest') or '')[:160].replace('|', '/').replace('\n', ' ')
    if det is None:
        res = 'not yet run'
    elif det['detected']:
        seen = []
        for v in det['violations']:
            s = f"`{v['class'][:70]}` ({v['job']}" + (", replay reproduces" if v.get('replay_reproduces') else "") + ")"
            if s not in seen:
                seen.append(s)
        res = 'caught: ' + '; '.join(seen[:3])
    else:
        res = f"**missed** (exit {det['exit_code']})"
    if det and det.get('note'):
        res += ' — ' + det['note']
    rows.append(f"| {sid} | {title} | {needs} | {res} |")
print("| id | change | needs to manifest | quick check of that property |")
print("|---|---|---|---|")
print("\n".join(rows))
