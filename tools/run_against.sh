#!/bin/bash
# Runs a registered check against a scratch copy of /repo with a patch applied, without touching /repo:
# the patched git worktree is bind-mounted over /repo in a private mount namespace, so the check
# rebuilds "from /repo's working tree" exactly as it would after `git -C /repo apply <patch>`.
#   tools/run_against.sh <patch.diff | worktree dir> <ID> [quick|thorough] [extra env assignments...]
# Output dir: /tmp/mut_out/<name>/ (evidence, replays, log). Target dir: /tmp/mut_tgt (shared, sequential use).
set -u
SRC=$1; ID=$2; TIER=${3:-quick}; shift; shift; shift 2>/dev/null
NAME=$(echo "$SRC" | sed 's#/patch.diff$##; s#.*/##')-$ID
OUT=/tmp/mut_out/$NAME; mkdir -p "$OUT"; rm -rf "$OUT/evidence" "$OUT/replays"
TGT=${MUT_TGT:-/tmp/mut_tgt}
if [ ! -d "$TGT" ]; then mkdir -p "$TGT"; fi
if [ -d "$SRC" ]; then WT=$SRC; KEEP=1; else
  WT=/tmp/mut_wt_$NAME; KEEP=0
  git -C /repo worktree remove --force "$WT" 2>/dev/null
  git -C /repo worktree add -q "$WT" HEAD || { echo "cannot create worktree"; exit 2; }
  # A seeded patch was written against the tree of its day; later fix: commits may have moved its
  # context. Fall back to a 3-way apply (the old blobs are in the object store), and to a manually
  # rebased copy of the patch (patch.rebased.diff next to it) when even that conflicts.
  if ! git -C "$WT" apply "$SRC" 2>/dev/null; then
    REB=$(dirname "$SRC")/patch.rebased.diff
    if [ -f "$REB" ] && git -C "$WT" apply "$REB"; then echo "applied rebased patch $REB";
    elif git -C "$WT" apply --3way "$SRC" && ! git -C "$WT" diff --name-only --diff-filter=U | grep -q .; then echo "applied with 3-way merge"; git -C "$WT" reset -q;
    else echo "patch does not apply"; git -C /repo worktree remove --force "$WT"; exit 2; fi
  fi
fi
env "$@" VERIF_TARGET_DIR=$TGT VERIF_OUT_DIR=$OUT unshare -m sh -c "mount --bind $WT /repo && cd /verif && ./check $ID --tier $TIER" > "$OUT/log" 2>&1
RC=$?
echo "== $NAME rc=$RC"
grep -E "^(VIOLATION|KNOWN-FINDING|HARNESS-ERROR|  class:)" "$OUT/log" | cut -c1-260 | sort | uniq -c | head -20
tail -1 "$OUT/log"
if [ $KEEP -eq 0 ]; then git -C /repo worktree remove --force "$WT"; fi
exit $RC
