#!/usr/bin/env python3
"""Regenerates the seeded-change table between the markers in DESIGN.md §10."""
import subprocess, re
t = subprocess.run(["python3", "/verif/tools/seeded_table.py"], capture_output=True, text=True).stdout
p = "/verif/DESIGN.md"; s = open(p).read()
s = re.sub(r"<!-- SEEDED-TABLE-BEGIN -->.*<!-- SEEDED-TABLE-END -->", "<!-- SEEDED-TABLE-BEGIN -->\n" + t + "<!-- SEEDED-TABLE-END -->", s, flags=re.S)
open(p, "w").write(s)
